"""Debug aid: run one generated case twice in separate forked processes and diff the event histories.

usage: PYTHONPATH=/repo/src:/verif /venv/bin/python tools/diff_runs.py C31 <run_seed> [tier]
The property's run_case must return res['events'] when case['return_hist'] is set.
"""
import importlib
import json
import os
import sys

sys.path.insert(0, os.path.dirname(os.path.dirname(os.path.abspath(__file__))))
prop, run_seed = sys.argv[1], int(sys.argv[2])
tier = sys.argv[3] if len(sys.argv) > 3 else "quick"
mod = importlib.import_module(f"simcheck.props.{prop.lower()}")
if hasattr(mod, "setup_parent"):
    mod.setup_parent()
outs = []
for k in range(2):
    r, w = os.pipe()
    pid = os.fork()
    if pid == 0:
        os.close(r)
        if hasattr(mod, "setup_process"):
            mod.setup_process()
        case = mod.gen_case(run_seed, tier)
        case["return_hist"] = True
        case["log_lines"] = bool(os.environ.get("LINES"))
        if k == 1 and os.environ.get("WARM"):
            mod.run_case(mod.gen_case(int(os.environ["WARM"]), tier))
        res = mod.run_case(case)
        with os.fdopen(w, "w") as f:
            json.dump({"digest": res["digest"], "events": res.get("events", []), "violation": res.get("violation")}, f, default=repr)
        os._exit(0)
    os.close(w)
    with os.fdopen(r) as f:
        outs.append(json.load(f))
    os.waitpid(pid, 0)
a, b = outs
print("digests", a["digest"], b["digest"], "violation", a["violation"] and a["violation"]["signature"])
if os.environ.get("LINES"):
    a["events"] = [e for e in a["events"] if e[0] == "line"]
    b["events"] = [e for e in b["events"] if e[0] == "line"]
if os.environ.get("ONLY"):
    ks = os.environ["ONLY"].split(",")
    a["events"] = [e for e in a["events"] if e[0] in ks]
    b["events"] = [e for e in b["events"] if e[0] in ks]
for i, (x, y) in enumerate(zip(a["events"], b["events"])):
    if x != y:
        print("first difference at event", i)
        for j in range(max(0, i - 5), min(len(a["events"]), i + 5)):
            print(" A", a["events"][j])
        for j in range(max(0, i - 5), min(len(b["events"]), i + 5)):
            print(" B", b["events"][j])
        break
else:
    print("common prefix equal; lengths", len(a["events"]), len(b["events"]))
