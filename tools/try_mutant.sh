#!/bin/bash
# tools/try_mutant.sh <ID> <patch.diff> [extra args to ./check]  -- apply patch to /repo, run quick check, revert.
id=$1; patch=$2; shift 2
cd /verif
if [ -n "$(git -C /repo status --porcelain --untracked-files=no)" ]; then echo "/repo not clean"; exit 3; fi
git -C /repo apply "$patch" || { echo "patch does not apply"; exit 3; }
VERIF_NO_EVIDENCE=1 ./check "$id" "$@" > /tmp/try_mutant.out 2>&1; rc=$?
git -C /repo checkout -- . 
grep -E "^violation|^VIOLATION|^KNOWN|^$id |HARNESS" /tmp/try_mutant.out | cut -c1-260 | head -8
echo "exit=$rc"
