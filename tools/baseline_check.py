"""Run the repository's pinned test suite (guard off) and compare with BASELINE.json stable_pass."""
import json
import os
import subprocess
import sys
import tempfile
import xml.etree.ElementTree as ET

base = json.load(open("/root/.vp/BASELINE.json"))
out = tempfile.mktemp(suffix=".junit.xml", dir="/dev/shm")
env = {k: v for k, v in os.environ.items() if not k.startswith(("PYNGUIN_VERIF", "VERIF_"))}
cmd = base["cmd"].replace("<file>", out)
extra = " ".join(sys.argv[1:])
p = subprocess.run(cmd + (" " + extra if extra else ""), shell=True, env=env, capture_output=True, text=True)
tree = ET.parse(out)
passed = set()
for tc in tree.iter("testcase"):
    bad = any(ch.tag in ("failure", "error", "skipped") for ch in tc)
    if not bad:
        passed.add(f"{tc.get('classname')}::{tc.get('name')}")
os.unlink(out)
want = set(base["stable_pass"])
missing = sorted(want - passed)
print(f"stable_pass={len(want)} passed_now={len(passed)} missing={len(missing)}")
for m in missing[:40]:
    print("MISSING", m)
sys.exit(1 if missing else 0)
