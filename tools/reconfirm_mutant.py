"""Re-run, in isolation, the pinned tests that were missing when a seeded change was screened under load.

usage: reconfirm_mutant.py <seed_id> <worktree>
If every missing test passes with the patch applied (and the demo results were right), mark the change confirmed.
"""
import json
import os
import re
import subprocess
import sys

seed_id, wt = sys.argv[1:3]
dst = f"/verif/seeded/{seed_id}"
meta = json.load(open(f"{dst}/meta.json"))
conf = meta["confirmed"]
txt = conf.get("pinned_test_suite_on_patched_tree", "")
m = re.search(r"missing_on_patched=(\d+) (\[.*\])", txt)
if conf.get("all_confirmed") or not m or int(m.group(1)) == 0:
    print(seed_id, "nothing to do")
    sys.exit(0)
missing = eval(m.group(2))  # list literal written by seed_mutant.py
if int(m.group(1)) > len(missing):
    print(seed_id, "more missing tests than listed; full rerun needed")
    sys.exit(1)


def sh(cmd):
    return subprocess.run(cmd, shell=True, capture_output=True, text=True)


assert sh(f"git -C {wt} status --porcelain --untracked-files=no").stdout.strip() == "", "worktree not clean"
sh(f"git -C {wt} checkout -q --detach $(git -C /repo rev-parse HEAD)")
assert sh(f"git -C {wt} apply {dst}/patch.diff").returncode == 0
try:
    ok = True
    for t in missing:
        mod, name = t.split("::", 1)
        path = mod.replace(".", "/") + ".py"
        p = sh(f"cd {wt} && PYTHONPATH={wt}/src /venv/bin/python -m pytest -q -p no:cacheprovider '{path}::{name}'")
        passed = " passed" in p.stdout and " failed" not in p.stdout
        print(" ", t, "PASS" if passed else "FAIL")
        ok = ok and passed
finally:
    sh(f"git -C {wt} checkout -- .")
if ok and conf["demo_on_clean_tree_exit"] == 0 and conf["demo_on_patched_tree_exit"] != 0:
    conf["pinned_test_suite_on_patched_tree"] = txt + " | rerun in isolation (load-sensitive subprocess tests): all pass"
    conf["all_confirmed"] = True
    json.dump(meta, open(f"{dst}/meta.json", "w"), indent=1)
    print(seed_id, "confirmed after isolated rerun")
else:
    print(seed_id, "still not confirmed")
