"""Confirm a bug-seeding change produced by a sub-agent and file it under /verif/seeded/<id>/.

usage: seed_mutant.py <PROP> <agent_out_dir> <index> <seed_id> [--skip-tests]
Steps (all in the scratch worktree /tmp/mut_<PROP>, never in /repo):
  1. clean tree: demo must exit 0
  2. apply patch: demo must exit != 0
  3. patched tree: pinned test suite must still match BASELINE stable_pass
  4. apply the patch to /repo, run `./check <PROP> --tier quick`, undo it; record exit code and signatures
"""
import json
import os
import shutil
import subprocess
import sys

prop, outdir, idx, seed_id = sys.argv[1:5]
skip_tests = "--skip-tests" in sys.argv
wt = os.environ.get("SEED_WT_DIR", f"/tmp/mut_{prop}")
patch = os.path.join(outdir, f"patch_{idx}.diff")
demo = os.path.join(outdir, f"demo_{idx}.py")
if "--recheck" not in sys.argv:
    meta_all = json.load(open(os.path.join(outdir, "meta.json")))
    meta_in = next((m for m in meta_all if str(m.get("patch", "")).endswith(f"patch_{idx}.diff")), meta_all[int(idx) - 1])


def sh(cmd, **kw):
    return subprocess.run(cmd, shell=True, capture_output=True, text=True, **kw)


def run_demo():
    p = sh(f"cd {wt} && PYTHONPATH={wt}/src timeout 300 /venv/bin/python {demo}")
    return p.returncode, (p.stdout + p.stderr)[-600:]


def suite_passes():
    import xml.etree.ElementTree as ET

    base = json.load(open("/root/.vp/BASELINE.json"))
    junit = f"/dev/shm/seed_{seed_id}.xml"
    cmd = base["cmd"].replace("cd /repo", f"cd {wt}").replace("<file>", junit)
    sh(f"PYTHONPATH={wt}/src " + cmd)
    passed = set()
    for tc in ET.parse(junit).iter("testcase"):
        if not any(ch.tag in ("failure", "error", "skipped") for ch in tc):
            passed.add(f"{tc.get('classname')}::{tc.get('name')}")
    os.unlink(junit)
    return passed


if "--recheck" in sys.argv:
    dst = f"/verif/seeded/{seed_id}"
    meta = json.load(open(os.path.join(dst, "meta.json")))
    if os.environ.get("SEED_WT"):
        rwt = os.environ.get("SEED_WT_DIR", wt)
        assert sh(f"git -C {rwt} status --porcelain --untracked-files=no").stdout.strip() == "", "worktree not clean"
        sh(f"git -C {rwt} checkout -q --detach $(git -C /repo rev-parse HEAD)")
        ap = sh(f"git -C {rwt} apply {dst}/patch.diff")
        if ap.returncode != 0:
            meta["check_result"] = {"cmd": "patch no longer applies to the current tree", "exit": None, "signatures": [],
                                    "caught": None}
            meta["valid_on_current_tree"] = False
            json.dump(meta, open(os.path.join(dst, "meta.json"), "w"), indent=1)
            print("rechecked", seed_id, "PATCH DOES NOT APPLY")
            sys.exit(0)
        try:
            chk = sh(f"cd /verif && VERIF_REPO={rwt} VERIF_NO_EVIDENCE=1 ./check {prop} --tier quick")
        finally:
            sh(f"git -C {rwt} checkout -- .")
    else:
        assert sh("git -C /repo status --porcelain --untracked-files=no").stdout.strip() == "", "/repo not clean"
        ap = sh(f"git -C /repo apply {dst}/patch.diff")
        assert ap.returncode == 0, ap.stderr
        try:
            chk = sh(f"cd /verif && VERIF_NO_EVIDENCE=1 ./check {prop} --tier quick")
        finally:
            sh("git -C /repo checkout -- .")
    sigs = sorted({ln.split(" :: ")[0].replace("violation: ", "") for ln in chk.stdout.splitlines() if ln.startswith("violation: ")})
    meta.setdefault("check_history", []).append(meta["check_result"])
    meta["check_result"] = {"cmd": f"./check {prop} --tier quick", "exit": chk.returncode, "signatures": sigs[:10],
                            "caught": chk.returncode == 1,
                            "verif_commit": sh("git -C /verif rev-parse --short HEAD").stdout.strip() + "+",
                            "repo_head": sh("git -C /repo rev-parse --short HEAD").stdout.strip(),
                            "via": "VERIF_REPO=scratch worktree" if os.environ.get("SEED_WT") else "patch applied to /repo"}
    json.dump(meta, open(os.path.join(dst, "meta.json"), "w"), indent=1)
    print("rechecked", seed_id, "exit", chk.returncode, sigs[:4])
    sys.exit(0)

assert sh(f"git -C {wt} status --porcelain --untracked-files=no").stdout.strip() == "", "worktree not clean"
# bring the worktree to /repo's HEAD so the patch is judged against the current tree
sh(f"git -C {wt} checkout -q --detach $(git -C /repo rev-parse HEAD)")
rc_clean, out_clean = run_demo()
ap = sh(f"git -C {wt} apply {patch}")
assert ap.returncode == 0, "patch does not apply: " + ap.stderr
try:
    rc_patched, out_patched = run_demo()
    tests = "skipped"
    if not skip_tests:
        stable = set(json.load(open("/root/.vp/BASELINE.json"))["stable_pass"])
        head = sh("git -C /repo rev-parse --short HEAD").stdout.strip()
        cache = f"/dev/shm/seed_clean_{head}.json"
        if not os.path.exists(cache):
            sh(f"git -C {wt} stash -q")  # measure the clean worktree once per /repo HEAD
            try:
                json.dump(sorted(suite_passes()), open(cache, "w"))
            finally:
                sh(f"git -C {wt} stash pop -q")
        clean = set(json.load(open(cache)))
        want = stable & clean  # tests that pass in a worktree checkout at all (2 depend on the /repo path)
        missing = sorted(want - suite_passes())
        tests = (f"stable_pass={len(stable)} passing_on_clean_worktree={len(want)} "
                 f"missing_on_patched={len(missing)} {missing[:5]}")
finally:
    sh(f"git -C {wt} checkout -- .")
print("demo clean rc", rc_clean, "| patched rc", rc_patched, "| tests:", tests)
ok = rc_clean == 0 and rc_patched != 0 and (skip_tests or "missing_on_patched=0" in tests)
# run the check with the patch applied: against /repo itself (default) or, with SEED_WT=1, against the scratch
# worktree through VERIF_REPO (lets several mutants be screened in parallel; confirm later with --recheck)
if os.environ.get("SEED_WT"):
    ap = sh(f"git -C {wt} apply {patch}")
    assert ap.returncode == 0, ap.stderr
    try:
        chk = sh(f"cd /verif && VERIF_REPO={wt} VERIF_NO_EVIDENCE=1 ./check {prop} --tier quick")
    finally:
        sh(f"git -C {wt} checkout -- .")
else:
    assert sh("git -C /repo status --porcelain --untracked-files=no").stdout.strip() == "", "/repo not clean"
    ap = sh(f"git -C /repo apply {patch}")
    assert ap.returncode == 0, ap.stderr
    try:
        chk = sh(f"cd /verif && VERIF_NO_EVIDENCE=1 ./check {prop} --tier quick")
    finally:
        sh("git -C /repo checkout -- .")
sigs = sorted({ln.split(" :: ")[0].replace("violation: ", "") for ln in chk.stdout.splitlines() if ln.startswith("violation: ")})
print("check exit", chk.returncode, sigs[:6])
dst = f"/verif/seeded/{seed_id}"
os.makedirs(dst, exist_ok=True)
shutil.copy(patch, os.path.join(dst, "patch.diff"))
shutil.copy(demo, os.path.join(dst, os.path.basename(demo).replace(f"_{idx}", "")))
json.dump({
    "seed_id": seed_id,
    "property": prop,
    "what_it_breaks": meta_in.get("what_it_breaks"),
    "needs_to_manifest": meta_in.get("needs_to_manifest"),
    "author": "independent sub-agent given only the property text and a scratch worktree",
    "confirmed": {
        "repo_head": sh("git -C /repo rev-parse --short HEAD").stdout.strip(),
        "demo_on_clean_tree_exit": rc_clean,
        "demo_on_patched_tree_exit": rc_patched,
        "demo_patched_output_tail": out_patched[-300:],
        "pinned_test_suite_on_patched_tree": tests,
        "all_confirmed": ok,
    },
    "check_result": {"cmd": f"./check {prop} --tier quick", "exit": chk.returncode, "signatures": sigs[:10],
                     "caught": chk.returncode == 1,
                     "via": "VERIF_REPO=scratch worktree" if os.environ.get("SEED_WT") else "patch applied to /repo"},
}, open(os.path.join(dst, "meta.json"), "w"), indent=1)
print("filed", dst, "confirmed" if ok else "NOT CONFIRMED", "caught" if chk.returncode == 1 else "MISSED")
