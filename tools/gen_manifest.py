"""Generate /verif/MANIFEST.json from the table below (kept in one place)."""
import json
import os
import sys

HERE = os.path.dirname(os.path.dirname(os.path.abspath(__file__)))

NA = {
    "C01": "instrumented vs. original behaviour is a function of (program, arguments, metric set): differential program/value generation, no schedule, clock, fault or history for a simulator to own",
    "C02": "covered lines of one execution are a pure function of (program, input); the oracle would be sys.monitoring, there is no interleaving or fault in the statement",
    "C03": "branch outcomes of one execution are a pure function of (program, input); no interleaving, clock or fault in the statement",
    "C04": "distance helpers are pure functions of two values and a comparison kind",
    "C06": "CDG vs. post-dominator definition is a function of one code object",
    "C07": "goal-graph reachability is a function of (module, exclusion config) decided at construction time",
    "C08": "exclusion handling is a function of (module text, config)",
    "C09": "slice soundness is a function of one recorded execution; needs an independent dependence interpreter, not a scheduler",
    "C11": "monotonicity/commutativity of trace merging is algebra over trace values; Pynguin merges in a fixed order, no delivery order exists to permute",
    "C20": "rendering of one assertable value is a pure function",
    "C23": "literal round-trip of one value is a pure function",
    "C24": "export -> parse is a print/parse round-trip of one suite in one process; no crash point or second party in the statement",
    "C25": "subtype laws over types and a fixed hierarchy are pure",
    "C27": "test-cluster membership is a function of (module, visibility config)",
    "C28": "mutant enumeration is a function of (module AST, operator set, caps); in-place mutate/restore has no concurrent reader",
    "C35": "report totals are a formatting function of one suite and its trace",
}

# property -> (engine, technique, level text, level note, design ref)
CLAIMED = {}


def claim(pid, engine, technique, text, note, ref, level="exploration"):
    CLAIMED[pid] = (engine, technique, text, note, ref, level)


def load_claims():
    import importlib
    import glob

    sys.path.insert(0, HERE)
    for f in sorted(glob.glob(os.path.join(HERE, "simcheck", "props", "c[0-9]*.py"))):
        name = os.path.basename(f)[:-3]
        mod = importlib.import_module(f"simcheck.props.{name}")
        if mod.ID in PLANNED:
            continue  # module exists but has not passed the gates of DESIGN.md §1.3: not claimed
        m = mod.MANIFEST
        claim(mod.ID, m["engine"], m["technique"], m["text"], m["note"], m["ref"], mod.LEVEL)


PLANNED: dict = {}


def main():
    load_claims()
    props = [json.loads(line)["id"] for line in open(os.path.join(HERE, "properties.jsonl"))]
    checks = []
    for pid in props:
        if pid in CLAIMED:
            engine, technique, text, note, ref, level = CLAIMED[pid]
            checks.append({
                "property_id": pid,
                "quick_cmd": f"./check {pid} --tier quick",
                "thorough_cmd": f"./check {pid} --tier thorough",
                "evidence_file": f"evidence/{pid}.json",
                "replay_cmd_template": f"./check {pid} --replay {{path}}",
                "engine": engine,
                "level_claimed": {"category": level, "text": text, "design_ref": ref},
                "level_note": note,
                "technique": technique,
            })
    na = []
    for pid in props:
        if pid in CLAIMED:
            continue
        if pid in NA:
            na.append({"property_id": pid, "reason": "not applicable to deterministic simulation: " + NA[pid]})
        else:
            na.append({"property_id": pid, "reason": PLANNED.get(pid, "simulation target per DESIGN.md §3 but its check is not built yet; not claimed until it is")})
    manifest = {
        "version": 1,
        "setup_cmd": "./setup.sh",
        "hooks": {
            "guard": "PYNGUIN_VERIF",
            "enable": "no hooks in /repo: every seam is a module-level name rebound by the harness at run time (randomness.RNG, time.*, execution.threading, execution_isolation.threading, master.mp/master.time, subprocess_executor.mp); checks import pynguin from /repo/src via PYTHONPATH",
            "baseline_off_cmd": "/venv/bin/python tools/baseline_check.py",
            "source_commits": [],
            "add_only": True,
        },
        "engines": [
            {"name": "E2-executor", "path": "simcheck/execsim.py", "serves_properties": ["C32", "C05", "C30"],
             "kind_free_text": "real TestCaseExecutor/ExecutionTracer threads stepped by a seeded baton scheduler (simcheck/sched.py) on a simulated clock"},
            {"name": "E1-pipeline", "path": "simcheck/pipeline.py",
             "serves_properties": ["C10", "C13", "C14", "C16", "C17", "C18", "C19", "C21", "C22", "C26"],
             "kind_free_text": "generator.run_pynguin end to end in a forked child: SimClock on the time module, instrumented randomness.RNG (draw log, buggified boundary draws), executor/exporter threads under the time-driven baton scheduler, content-keyed injected execution timeouts, monitors at iteration and phase boundaries"},
            {"name": "E3-master-worker", "path": "simcheck/props/c33.py", "serves_properties": ["C33"],
             "kind_free_text": "master/worker restart protocol on a fake transport and simulated clock plus real forked workers with injected crashes"},
            {"name": "E4-stateful", "path": "simcheck/opsenv.py", "serves_properties": ["C12", "C15", "C29", "C34"],
             "kind_free_text": "seeded operation-and-fault histories on real components against a small reference model, ddmin-minimised"},
            {"name": "E5-replicas", "path": "simcheck/props/c31.py", "serves_properties": ["C31"],
             "kind_free_text": "in-process executor and real forked subprocess executor as two replicas on one simulated clock; the multiprocess seam of subprocess_executor is replaced by a transport whose poll timeout is decided in simulated time (child reports its elapsed simulated time on a side pipe); injected result loss, transport delay, child crash"},
        ],
        "checks": checks,
        "not_applicable": na,
        "notes": "Technique family: deterministic simulation with fault injection. ./check <ID> [--tier quick|thorough] [--replay FILE]; VERIF_SEED selects the seed. Exit 0 held / 1 VIOLATION / 2 harness error. Known findings: known_findings.json; regression cases: regressions/.",
    }
    extra = os.path.join(HERE, "tools", "manifest_extra.json")
    if os.path.exists(extra):
        ex = json.load(open(extra))
        manifest["engines"] = ex.get("engines", manifest["engines"])
    json.dump(manifest, open(os.path.join(HERE, "MANIFEST.json"), "w"), indent=1)
    print(f"claimed={len(checks)} not_applicable={len(na)}")


if __name__ == "__main__":
    sys.exit(main())
