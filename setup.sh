#!/bin/bash
# Offline setup: nothing to build; verify interpreter, repo import path and hypothesis-free harness.
set -e
cd "$(dirname "$0")"
mkdir -p evidence replays
PYTHONPATH="${VERIF_REPO:-/repo}/src:$PWD" /venv/bin/python - <<'PY'
import sys
import pynguin, libcst
import simcheck.simkit, simcheck.sched
print("setup ok: python", sys.version.split()[0], "pynguin from", pynguin.__file__)
PY
