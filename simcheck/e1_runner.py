"""Run one simulated pipeline case in THIS (fresh) interpreter and print its result as JSON."""
import json
import os
import sys

sys.path.insert(0, os.path.dirname(os.path.dirname(os.path.abspath(__file__))))


def main():
    case = json.load(open(sys.argv[1]))
    from simcheck.pipeline import TimeBudgetProbe, run_pipeline

    if case.get("reverse_listing"):
        # environment fault: the file system enumerates directories in the opposite order
        real_listdir, real_scandir = os.listdir, os.scandir

        def listdir(path="."):
            return sorted(real_listdir(path), reverse=True)

        class _Scan:
            def __init__(self, path="."):
                with real_scandir(path) as it:
                    self._entries = sorted(it, key=lambda e: e.name, reverse=True)
                self._i = iter(self._entries)

            def __iter__(self):
                return self

            def __next__(self):
                return next(self._i)

            def __enter__(self):
                return self

            def __exit__(self, *a):
                return False

            def close(self):
                pass

        os.listdir = listdir
        os.scandir = _Scan

    out = os.dup(1)
    run, res = run_pipeline(case, [TimeBudgetProbe()])
    payload = {k: res[k] for k in ("digest", "rc", "iterations", "executions", "draws", "draw_digest",
                                   "test_file_sha", "sim_ns")}
    payload["test_file_len"] = len(run.test_file or b"")
    payload["violation"] = res["violation"]
    payload["probes"] = res["probes"]
    payload["timeout_codes"] = sorted(run.timeout_codes)
    payload["ok_codes"] = sorted(run.ok_codes)
    if case.get("log_draws"):
        payload["draw_log"] = run.draw_log
    if case.get("log_execs"):
        payload["execs"] = run.exec_log
    if case.get("log_lines"):
        payload["lines"] = [[os.path.basename(a), b] for a, b in run.sched.line_log]
    if case.get("return_hist"):
        run.hist.keep = 10**9
        payload["hist"] = [list(map(str, e)) for e in run.hist.events]
    if case.get("return_test_file"):
        payload["test_file"] = (run.test_file or b"").decode("utf-8", "replace")
    os.write(out, ("RESULT " + json.dumps(payload, default=repr) + "\n").encode())


if __name__ == "__main__":
    main()
    sys.stdout.flush()
    os._exit(0)
