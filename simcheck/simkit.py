"""simkit: shared pieces of the deterministic simulator.

Seed discipline, history/digest, clock, RNG seam, process pool, minimiser,
evidence and violation reporting.  Nothing in here draws randomness or reads a
real clock except where explicitly marked (wall time for evidence only).
"""

from __future__ import annotations

import contextlib
import faulthandler
import hashlib
import json
import os
import random
import shutil
import signal
import sys
import time as _real_time_mod
import traceback
from pathlib import Path

VERIF = Path(__file__).resolve().parent.parent
REPO = Path(os.environ.get("VERIF_REPO", "/repo"))
SUT_DIR = VERIF / "sut"
EVIDENCE_DIR = VERIF / "evidence"
REPLAY_DIR = VERIF / "replays"
KNOWN_FINDINGS = VERIF / "known_findings.json"

# real clock handles captured before any patching (evidence / watchdog only)
_REAL_MONOTONIC = _real_time_mod.monotonic
_REAL_SLEEP = _real_time_mod.sleep
_REAL_TIME = _real_time_mod.time


def real_monotonic() -> float:
    return _REAL_MONOTONIC()


# ----------------------------------------------------------------------------
# seeds
# ----------------------------------------------------------------------------
def derive_seed(*parts) -> int:
    h = hashlib.sha256(repr(parts).encode()).digest()
    return int.from_bytes(h[:8], "big")


class HRandom(random.Random):
    """Harness PRNG.  Pynguin patches random.Random.seed and re-seeds every
    instance it has seen before each test execution; this subclass bypasses the
    patched method so harness streams are never tracked or re-seeded."""

    def seed(self, a=None, version=2):
        import _random

        if not isinstance(a, int):
            raise TypeError("HRandom needs an int seed")
        _random.Random.seed(self, a)
        self.gauss_next = None


class Streams:
    """Named PRNG sub-streams of one run seed."""

    def __init__(self, run_seed: int):
        self.run_seed = run_seed
        self._streams: dict[str, random.Random] = {}

    def get(self, name: str) -> random.Random:
        s = self._streams.get(name)
        if s is None:
            s = HRandom(derive_seed(self.run_seed, name))
            self._streams[name] = s
        return s


def stable_hash(obj) -> str:
    return hashlib.sha256(
        json.dumps(obj, sort_keys=True, default=repr).encode()
    ).hexdigest()[:16]


# ----------------------------------------------------------------------------
# history
# ----------------------------------------------------------------------------
class History:
    """Append-only event list with a rolling digest."""

    def __init__(self, keep: int = 400):
        self._h = hashlib.sha256()
        self.n = 0
        self.keep = keep
        self.events: list = []

    def add(self, *event) -> None:
        self.n += 1
        s = repr(event)
        self._h.update(s.encode())
        if len(self.events) < self.keep:
            self.events.append(event)

    def digest(self) -> str:
        return self._h.hexdigest()[:24]


# ----------------------------------------------------------------------------
# simulated clock
# ----------------------------------------------------------------------------
class SimClock:
    """Discrete simulated clock in ns; installs itself onto the time module."""

    EPOCH_NS = 1_700_000_000 * 10**9
    _NAMES = (
        "time",
        "time_ns",
        "monotonic",
        "monotonic_ns",
        "perf_counter",
        "perf_counter_ns",
        "sleep",
    )

    def __init__(self):
        self.ns = 0
        self.wall_offset_ns = 0  # clock-jump faults touch only wall time
        self.sleeper = None  # callable(seconds) installed by a scheduler
        self.reads = 0
        self.tick_on_read_ns = 0
        self._saved = None

    # -- readers -------------------------------------------------------------
    def _read(self):
        self.reads += 1
        if self.tick_on_read_ns:
            self.ns += self.tick_on_read_ns

    def time(self):
        self._read()
        return (self.EPOCH_NS + self.ns + self.wall_offset_ns) / 1e9

    def time_ns(self):
        self._read()
        return self.EPOCH_NS + self.ns + self.wall_offset_ns

    def monotonic(self):
        self._read()
        return self.ns / 1e9

    def monotonic_ns(self):
        self._read()
        return self.ns

    def sleep(self, seconds):
        if self.sleeper is not None:
            self.sleeper(seconds)
        else:
            self.advance(int(seconds * 1e9))

    def advance(self, ns: int) -> None:
        if ns > 0:
            self.ns += int(ns)

    # -- install -------------------------------------------------------------
    def install(self):
        import time

        self._saved = {n: getattr(time, n) for n in self._NAMES}
        time.time = self.time
        time.time_ns = self.time_ns
        time.monotonic = self.monotonic
        time.monotonic_ns = self.monotonic_ns
        time.perf_counter = self.monotonic
        time.perf_counter_ns = self.monotonic_ns
        time.sleep = self.sleep
        return self

    def uninstall(self):
        import time

        if self._saved:
            for n, f in self._saved.items():
                setattr(time, n, f)
            self._saved = None

    def __enter__(self):
        return self.install()

    def __exit__(self, *a):
        self.uninstall()


# ----------------------------------------------------------------------------
# decision source (schedule / fault choices that must be replayable)
# ----------------------------------------------------------------------------
class Decisions:
    """Numbered choice points.

    Generation mode: draws from an rng and records every non-default choice
    keyed by the choice sequence number.  Replay mode: looks the number up in
    the recorded map; anything not recorded is the default (0).
    """

    def __init__(self, rng: random.Random | None, recorded: dict | None = None):
        self.rng = rng
        self.replay = recorded is not None
        self.recorded: dict[int, int] = (
            {int(k): int(v) for k, v in recorded.items()} if recorded else {}
        )
        self.seq = 0

    def choose(self, n: int, p_nondefault: float = 1.0) -> int:
        """Pick in range(n); 0 is the default."""
        self.seq += 1
        if n <= 1:
            return 0
        if self.replay:
            c = self.recorded.get(self.seq, 0)
            return c if 0 <= c < n else 0
        r = self.rng.random()
        if r >= p_nondefault:
            return 0
        c = 1 + self.rng.randrange(n - 1) if p_nondefault < 1.0 else self.rng.randrange(n)
        if c:
            self.recorded[self.seq] = c
        return c

    def export(self) -> dict:
        return {str(k): v for k, v in sorted(self.recorded.items())}


# ----------------------------------------------------------------------------
# minimiser
# ----------------------------------------------------------------------------
def ddmin(items: list, test, budget: list) -> list:
    """Classic ddmin.  test(sub) -> True if the failure persists."""
    n = 2
    items = list(items)
    while len(items) >= 2 and budget[0] > 0:
        chunk = max(1, len(items) // n)
        subsets = [items[i : i + chunk] for i in range(0, len(items), chunk)]
        reduced = False
        for i, _sub in enumerate(subsets):
            if budget[0] <= 0:
                break
            complement = [x for j, s in enumerate(subsets) if j != i for x in s]
            budget[0] -= 1
            if test(complement):
                items = complement
                n = max(n - 1, 2)
                reduced = True
                break
        if not reduced:
            if n >= len(items):
                break
            n = min(len(items), n * 2)
    if len(items) == 1 and budget[0] > 0:
        budget[0] -= 1
        if test([]):
            return []
    return items


# ----------------------------------------------------------------------------
# process pool (fork, chunked, watchdog)
# ----------------------------------------------------------------------------
class HarnessError(Exception):
    pass


def _child_main(fn, chunk, out_path, per_chunk_timeout):
    # Never returns.  stdout of children is discarded (the code under test may print
    # to, replace or even close it); stderr goes to a per-chunk file shown on failure.
    try:
        try:
            dn = os.open(os.devnull, os.O_RDWR)
            os.dup2(dn, 0)
            os.dup2(dn, 1)
            os.close(dn)
            ef = os.open(out_path + ".err", os.O_WRONLY | os.O_CREAT | os.O_TRUNC, 0o644)
            os.dup2(ef, 2)
            os.close(ef)
        except OSError:
            pass
        faulthandler.enable()
        faulthandler.dump_traceback_later(per_chunk_timeout, exit=True)
        results = []
        for item in chunk:
            try:
                results.append(fn(item))
            except BaseException as e:  # noqa: BLE001
                results.append(
                    {
                        "status": "error",
                        "item": item if isinstance(item, (int, str)) else repr(item)[:200],
                        "error": "".join(traceback.format_exception(type(e), e, e.__traceback__))[-6000:],
                    }
                )
        tmp = out_path + ".tmp"
        with open(tmp, "w") as f:
            json.dump(results, f, default=repr)
        os.replace(tmp, out_path)
    except BaseException:  # noqa: BLE001
        try:
            os.write(2, ("CHILD-ERROR " + traceback.format_exc()[-3000:] + "\n").encode())
        except OSError:
            pass
    finally:
        os._exit(0)


def run_pool(fn, items: list, *, workers: int, chunk_size: int, per_chunk_timeout: int,
             deadline: float | None = None, scratch_tag: str = "pool", on_result=None,
             solo=None) -> tuple[list, list]:
    """Run fn(item) for every item in forked children.

    Returns (results, problems).  Children are forked from this process so all
    imports done by the parent are shared; each chunk runs in its own process.
    A chunk that dies or overruns its timeout is reported in problems.
    Stops launching new chunks after `deadline` (real monotonic seconds).
    """
    scratch = Path("/dev/shm") / f"verif-{scratch_tag}-{os.getpid()}"
    if scratch.exists():
        shutil.rmtree(scratch, ignore_errors=True)
    scratch.mkdir(parents=True)
    if solo is not None:
        singles = [[it] for it in items if solo(it)]
        rest = [it for it in items if not solo(it)]
        chunks = singles + [rest[i : i + chunk_size] for i in range(0, len(rest), chunk_size)]
    else:
        chunks = [items[i : i + chunk_size] for i in range(0, len(items), chunk_size)]
    pending = list(enumerate(chunks))
    pending.reverse()
    running: dict[int, tuple[int, float, str]] = {}
    results: list = []
    problems: list = []
    try:
        while pending or running:
            while pending and len(running) < workers:
                if deadline is not None and real_monotonic() > deadline:
                    pending.clear()
                    break
                idx, chunk = pending.pop()
                out = str(scratch / f"chunk-{idx}.json")
                sys.stdout.flush()
                sys.stderr.flush()
                pid = os.fork()
                if pid == 0:
                    _child_main(fn, chunk, out, per_chunk_timeout)
                running[pid] = (idx, real_monotonic(), out)
            if not running:
                break
            try:
                pid, status = os.waitpid(-1, os.WNOHANG)
            except ChildProcessError:
                pid = 0
            if pid == 0:
                now = real_monotonic()
                for p, (idx, t0, _out) in list(running.items()):
                    if now - t0 > per_chunk_timeout + 20:
                        with contextlib.suppress(ProcessLookupError):
                            os.kill(p, signal.SIGKILL)
                _REAL_SLEEP(0.01)
                continue
            if pid not in running:
                continue
            idx, t0, out = running.pop(pid)
            if os.environ.get("VERIF_DEBUG"):
                print(f"chunk {idx} size={len(chunks[idx])} took {real_monotonic() - t0:.1f}s", file=sys.stderr)
            if os.path.exists(out):
                with open(out) as f:
                    rs = json.load(f)
                os.unlink(out)
                if os.environ.get("VERIF_DEBUG"):
                    with contextlib.suppress(OSError):
                        sys.stderr.write(open(out + ".err", errors="replace").read()[-300:])
                for r in rs:
                    if r.get("status") == "error":
                        problems.append(r)
                    else:
                        results.append(r)
                        if on_result is not None:
                            on_result(r)
            else:
                err = ""
                with contextlib.suppress(OSError):
                    err = open(out + ".err", errors="replace").read()[-4000:]
                problems.append(
                    {
                        "status": "error",
                        "item": repr(chunks[idx])[:300],
                        "error": f"child for chunk {idx} died (status {status}) without results "
                        f"after {real_monotonic() - t0:.1f}s\n{err}",
                    }
                )
    finally:
        for p in running:
            with contextlib.suppress(ProcessLookupError):
                os.kill(p, signal.SIGKILL)
        shutil.rmtree(scratch, ignore_errors=True)
    return results, problems


# ----------------------------------------------------------------------------
# known findings / reporting
# ----------------------------------------------------------------------------
def load_known_findings() -> dict:
    if KNOWN_FINDINGS.exists():
        return json.loads(KNOWN_FINDINGS.read_text())
    return {"findings": []}


def known_signatures(prop: str) -> dict[str, dict]:
    out = {}
    for f in load_known_findings().get("findings", []):
        if f.get("property") == prop and f.get("status") == "known":
            out[f["signature"]] = f
    return out


def write_replay(prop: str, run_seed, payload: dict) -> str:
    REPLAY_DIR.mkdir(exist_ok=True)
    p = REPLAY_DIR / f"{prop}-{run_seed}.json"
    p.write_text(json.dumps(payload, indent=1, sort_keys=True, default=repr))
    return str(p)


def write_evidence(prop: str, tier: str, seed: int, level: str, coverage: dict,
                   assumptions: list[str], wall_s: float, violations: int) -> None:
    EVIDENCE_DIR.mkdir(exist_ok=True)
    ev = {
        "property_id": prop,
        "tier": tier,
        "seed": int(seed),
        "level": level,
        "coverage": coverage,
        "assumptions": assumptions,
        "wall_s": round(wall_s, 2),
        "violations": int(violations),
    }
    tmp = EVIDENCE_DIR / f".{prop}.json.tmp"
    tmp.write_text(json.dumps(ev, indent=1, sort_keys=True, default=repr))
    os.replace(tmp, EVIDENCE_DIR / f"{prop}.json")


def ncpu() -> int:
    try:
        return max(1, len(os.sched_getaffinity(0)))
    except AttributeError:
        return os.cpu_count() or 1
