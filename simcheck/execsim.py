"""E2: the real TestCaseExecutor / ExecutionTracer under the baton scheduler."""

from __future__ import annotations

import os
import sys
import tempfile

from . import pyn, simkit
from .sched import Scheduler, SimOverrun, SimThread, ThreadingShim
from .simkit import Decisions, History, SimClock

_PYN_FUNCS = {
    "execution.py": None,  # every function
    "execution_isolation.py": None,
    "tracer.py": {"__enter__", "__exit__", "check", "stop", "init_trace", "get_trace"},
    "fs_isolation.py": {"__enter__", "__exit__"},
}


def make_classifier():
    sut_dir = str(simkit.SUT_DIR) + os.sep
    pyn_dir = str(simkit.REPO / "src" / "pynguin") + os.sep

    def classify(code):
        fn = code.co_filename
        if fn == "<ast>" or fn.startswith(sut_dir):
            return "sut"
        if fn.startswith(pyn_dir):
            base = os.path.basename(fn)
            if base in _PYN_FUNCS:
                names = _PYN_FUNCS[base]
                if names is None or code.co_name in names:
                    return "pyn"
        return None

    return classify


class E2Env:
    """Per-process environment: instrumented SUT + real executor pieces."""

    def __init__(self, module_name: str, **cfg_sections):
        self.config, self.gen = pyn.import_pynguin()
        self.out_dir = tempfile.mkdtemp(prefix="verif-e2-")
        self.cfg = pyn.make_config(module_name, self.out_dir, **cfg_sections)
        self.executor0, self.cluster, self.constants = pyn.setup_sut(self.cfg)
        self.props = self.executor0.subject_properties
        self.tracer = self.props.instrumentation_tracer
        self.module_name = module_name
        self.alias = pyn.alias(module_name)
        import pynguin.testcase.execution as ex

        self.ex = ex
        self.shim = ThreadingShim()
        ex.threading = self.shim
        import pynguin.testcase.execution_isolation as iso

        iso.threading = self.shim
        self.classify = make_classifier()
        self._ref_cache: dict = {}

    def new_executor(self, max_timeout: int, per_stmt: int, probe: bool = False):
        if probe:
            return make_probe_executor(self.ex.TestCaseExecutor)(
                self.props,
                maximum_test_execution_timeout=max_timeout,
                test_execution_time_per_statement=per_stmt,
            )
        return self.ex.TestCaseExecutor(
            self.props,
            maximum_test_execution_timeout=max_timeout,
            test_execution_time_per_statement=per_stmt,
        )

    def new_sim(self, *, decisions: Decisions, policy: str, **kw) -> tuple[SimClock, Scheduler]:
        clock = SimClock()
        sch = Scheduler(clock, decisions, policy=policy, history=History(), **kw)
        sch.classify = self.classify
        return clock, sch

    # ------------------------------------------------------------------
    def execute_traced(self, sch: Scheduler, executor, tc):
        """Run executor.execute(tc) with main-thread yield points."""
        SimThread.scheduler = sch
        sys.settrace(sch.tracefn)
        try:
            return executor.execute(tc)
        finally:
            sys.settrace(None)
            SimThread.scheduler = None

    def reference(self, key: str, build):
        """Result signature of a test case on a clean, unhurried executor."""
        ref = self._ref_cache.get(key)
        if ref is None:
            clock, sch = self.new_sim(decisions=Decisions(None, {}), policy="time_driven",
                                      sut_line_cost_ns=1_000)
            ex = self.new_executor(10_000_000, 10_000_000)
            with clock:
                sch.watch_deadline = 5_000_000 * 10**9
                sch.max_yields = 300_000
                try:
                    res = self.execute_traced(sch, ex, build())
                    ref = result_signature(res)
                except SimOverrun:
                    ref = {"nonterminating": True}
                sch.mark_abandoned()
                sch.shutdown()
            self._ref_cache[key] = ref
        return ref


_probe_cls = None


def make_probe_executor(base):
    """Harness subclass: samples tracer.is_disabled() around every statement."""
    global _probe_cls
    if _probe_cls is None:

        class ProbeExecutor(base):
            def __init__(self, *a, **k):
                super().__init__(*a, **k)
                self.samples = []

            def _exec_statement(self, node, namespace):
                tr = self._subject_properties.instrumentation_tracer
                before = tr.is_disabled()
                exc = super()._exec_statement(node, namespace)
                self.samples.append((before, tr.is_disabled(), type(exc).__name__ if exc is not None else None))
                return exc

        _probe_cls = ProbeExecutor
    return _probe_cls


def result_signature(res) -> dict:
    tr = res.execution_trace
    return {
        "timeout": bool(res.timeout),
        "lines": sorted(tr.covered_line_ids),
        "code_objects": sorted(tr.executed_code_objects),
        "pred_true": sorted(k for k, v in tr.true_distances.items() if v == 0.0),
        "pred_false": sorted(k for k, v in tr.false_distances.items() if v == 0.0),
        "pred_counts": {str(k): v for k, v in sorted(tr.executed_predicates.items())},
        "exceptions": {str(k): type(v).__name__ for k, v in sorted(res.exceptions.items())},
    }


def subset_violations(sig: dict, ref: dict) -> list[str]:
    """What `sig` has that `ref` does not (the 'never adds' oracle)."""
    out = []
    for key in ("lines", "code_objects", "pred_true", "pred_false"):
        extra = set(sig[key]) - set(ref[key])
        if extra:
            out.append(f"{key}+{sorted(extra)[:5]}")
    for k, n in sig["pred_counts"].items():
        if n > ref["pred_counts"].get(k, 0):
            out.append(f"pred_count[{k}]={n}>{ref['pred_counts'].get(k, 0)}")
            break
    for pos, name in sig["exceptions"].items():
        if ref["exceptions"].get(pos) != name:
            out.append(f"exception[{pos}]={name} (ref {ref['exceptions'].get(pos)})")
    return out
