"""Entry point: ./check <ID> [--tier quick|thorough] [--replay FILE] [--runs N]."""
import argparse
import importlib
import os
import sys

sys.path.insert(0, os.path.dirname(os.path.dirname(os.path.abspath(__file__))))


def main() -> int:
    ap = argparse.ArgumentParser()
    ap.add_argument("prop")
    ap.add_argument("--tier", default=os.environ.get("VERIF_TIER", "quick"), choices=["quick", "thorough"])
    ap.add_argument("--replay")
    ap.add_argument("--runs", type=int)
    a = ap.parse_args()
    seed = int(os.environ.get("VERIF_SEED", "20260921"))
    from simcheck import driver

    mod = importlib.import_module(f"simcheck.props.{a.prop.lower()}")
    if hasattr(mod, "main"):
        return mod.main(a.tier, seed, a.replay, a.runs)
    return driver.run_property(mod, a.tier, seed, a.replay, a.runs)


if __name__ == "__main__":
    try:
        rc = main()
    except SystemExit:
        raise
    except BaseException:  # noqa: BLE001
        import traceback

        traceback.print_exc()
        rc = 2
    sys.stdout.flush()
    sys.stderr.flush()
    os._exit(rc)
