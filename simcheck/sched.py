"""Baton-passing scheduler for real threads.

Exactly one managed thread runs at a time; every other managed thread is parked
on its own semaphore.  Which thread runs next is decided by the scheduler at
yield points (line events in selected code via sys.settrace, thread start,
join, sleep), from a replayable decision source.  Time is simulated: it only
advances at yield points (by a per-line cost), sleeps and timer jumps.
"""

from __future__ import annotations

import sys
import threading as _threading

from .simkit import Decisions, History, SimClock

_RealThread = _threading.Thread


class SimKilled(BaseException):
    """Raised inside an abandoned thread at a safe yield point during shutdown."""


class SimDeadlock(BaseException):
    pass


class SimOverrun(BaseException):
    """Raised in the main actor when a watched deadline passed (bounded liveness)."""


class Actor:
    __slots__ = ("abandoned", "aid", "deadline", "kill", "name", "sem", "state",
                 "starve", "thread", "timed_out", "wait_for", "wait_lock", "yields")

    def __init__(self, aid: int, name: str, thread):
        self.aid = aid
        self.name = name
        self.thread = thread
        self.sem = _threading.Semaphore(0)
        self.state = "runnable"  # runnable | blocked | finished
        self.deadline: int | None = None
        self.wait_for: Actor | None = None
        self.wait_lock = None
        self.timed_out = False
        self.abandoned = False
        self.kill = False
        self.starve = 0
        self.yields = 0


class Scheduler:
    def __init__(self, clock: SimClock, decisions: Decisions, *, policy: str = "adversarial",
                 p_switch: float = 0.1, max_starve: int = 40, history: History | None = None,
                 sut_line_cost_ns: int = 10_000_000, pyn_line_cost_ns: int = 10_000,
                 max_yields: int = 2_000_000):
        self.clock = clock
        self.dec = decisions
        self.policy = policy
        self.p_switch = p_switch
        self.max_starve = max_starve
        self.hist = history or History()
        self.sut_cost = sut_line_cost_ns
        self.pyn_cost = pyn_line_cost_ns
        self.actors: list[Actor] = []
        self.local = _threading.local()
        self.main = self._new_actor("main", _threading.current_thread())
        self.local.actor = self.main
        self.current = self.main
        self.switches = 0
        self.total_yields = 0
        self.max_yields = max_yields
        self.shutting_down = False
        self.watch_deadline: int | None = None  # main-actor liveness watch (ns)
        self.traced_code: dict = {}
        self.classify = lambda code: None  # code -> 'sut' | 'pyn' | None
        self.thread_errors: list = []
        self.overrun: str | None = None
        self.main_preempted_ns = 0
        self.lock_contentions = 0
        self.line_log: list | None = None
        self.line_filter = None
        self.log_pyn = False
        self.p_stall = 0.0
        self.abandoned_funcs: set[str] = set()
        self.debug_ring = None
        self.stall_ns: list[int] = []
        self.stalls = 0
        self.abandoned_yields = 0
        self.quantum = 5
        clock.sleeper = self.sleep

    # ------------------------------------------------------------------
    def _new_actor(self, name, thread) -> Actor:
        a = Actor(len(self.actors), name, thread)
        self.actors.append(a)
        return a

    def me(self) -> Actor | None:
        return getattr(self.local, "actor", None)

    # ------------------------------------------------------------------
    # tracing
    # ------------------------------------------------------------------
    def tracefn(self, frame, event, arg):
        code = frame.f_code
        kind = self.traced_code.get(code, 0)
        if kind == 0:
            kind = self.classify(code)
            self.traced_code[code] = kind
        if kind is None:
            return None
        if kind == "sut":
            return self._local_sut
        return self._local_pyn

    def _local_sut(self, frame, event, arg):
        if event == "line":
            if self.current.abandoned:
                self.abandoned_funcs.add(frame.f_code.co_name)
            if self.line_log is not None and (self.line_filter is None or self.line_filter()):
                self.line_log.append((frame.f_code.co_filename, frame.f_lineno))
            self.yield_point("sut")
        return self._local_sut

    def _local_pyn(self, frame, event, arg):
        if event == "line":
            if self.line_log is not None and self.log_pyn:
                self.line_log.append((frame.f_code.co_filename, frame.f_lineno))
            self.yield_point("pyn")
        return self._local_pyn

    # ------------------------------------------------------------------
    # core
    # ------------------------------------------------------------------
    def _wake_due(self) -> None:
        now = self.clock.ns
        for a in self.actors:
            if a.state == "blocked":
                if a.wait_lock is not None:
                    if not a.wait_lock.locked_by:
                        a.state = "runnable"
                        a.wait_lock = None
                elif a.wait_for is not None and a.wait_for.state == "finished":
                    a.state = "runnable"
                    a.timed_out = False
                    a.wait_for = None
                    a.deadline = None
                elif a.deadline is not None and a.deadline <= now:
                    a.state = "runnable"
                    a.timed_out = a.wait_for is not None
                    a.wait_for = None
                    a.deadline = None

    def _runnable_others(self, cur: Actor) -> list[Actor]:
        return [a for a in self.actors if a is not cur and a.state == "runnable"]

    def _handoff(self, cur: Actor, nxt: Actor, park: bool) -> None:
        self.switches += 1
        if self.debug_ring is not None:
            self.debug_ring.append(("handoff", cur.aid, cur.state, nxt.aid, nxt.state, park, self.clock.ns))
        self.hist.add("sw", self.clock.ns, cur.aid, nxt.aid)
        nxt.starve = 0
        self.current = nxt
        nxt.sem.release()
        if park:
            cur.sem.acquire()
            self._resumed(cur)

    def _resumed(self, me: Actor) -> None:
        if me.kill and me is not self.main:
            return  # delivered at next safe point
        if me is self.main and me.kill:
            me.kill = False
            raise SimDeadlock("no runnable actor and no pending timer")

    def _overrun(self, me: Actor, why: str) -> None:
        self.overrun = why
        self.hist.add("overrun", self.clock.ns, me.aid, why)
        if me is self.main:
            raise SimOverrun(why)
        m = self.main
        m.state = "runnable"
        m.wait_for = None
        m.deadline = None
        self._handoff(me, m, park=True)

    def yield_point(self, kind: str) -> None:
        me = self.me()
        if me is None or me is not self.current:
            return
        me.yields += 1
        self.total_yields += 1
        if me.kill and kind in ("sut", "sleep") and me is not self.main:
            raise SimKilled
        if self.shutting_down:
            return
        cost = self.sut_cost if kind == "sut" else self.pyn_cost
        self.clock.advance(cost)
        if me is not self.main and self.main.state == "runnable":
            self.main_preempted_ns += cost
        if me.abandoned:
            self.abandoned_yields += 1
        if self.overrun is None:
            if self.total_yields > self.max_yields:
                self._overrun(me, "yield cap exceeded")
                return
            if self.watch_deadline is not None and self.clock.ns > self.watch_deadline:
                self._overrun(me, "watched deadline passed")
                return
        if self.p_stall and me is not self.main and not me.kill:
            # fault: the OS deschedules this thread for a while (stalled node)
            c = self.dec.choose(1 + len(self.stall_ns), self.p_stall)
            if c:
                self.stalls += 1
                me.state = "blocked"
                me.deadline = self.clock.ns + self.stall_ns[c - 1]
                me.wait_for = None
                self.hist.add("stall", self.clock.ns, me.aid, me.deadline)
                self._block(me)
                if me.kill:
                    return  # delivered at the next safe point
        self._wake_due()
        others = self._runnable_others(me)
        if not others:
            return
        # fairness: a non-abandoned runnable actor starved too long is forced
        forced = None
        for a in others:
            a.starve += 1
            if not a.abandoned and a.starve > self.max_starve and forced is None:
                forced = a
        if forced is not None:
            self._handoff(me, forced, park=True)
            return
        if self.policy == "time_driven":
            # OS-like: main runs as soon as its timer fired; abandoned threads
            # get slices; otherwise the running thread keeps the CPU.
            if me is not self.main and self.main in others:
                self._handoff(me, self.main, park=True)
                return
            live = [a for a in others if not a.abandoned and a is not self.main]
            if me.abandoned and live:
                if me.yields % self.quantum == 0:
                    self._handoff(me, live[0], park=True)
                return
            zombies = [a for a in others if a.abandoned]
            if zombies and me is not self.main and me.yields % self.quantum == 0:
                c = self.dec.choose(len(zombies) + 1, self.p_switch)
                if c:
                    self._handoff(me, zombies[c - 1], park=True)
            return
        c = self.dec.choose(len(others) + 1, self.p_switch)
        if c:
            self._handoff(me, others[c - 1], park=True)

    def _block(self, me: Actor) -> None:
        """me.state is 'blocked'; pick someone else or advance time."""
        while True:
            self._wake_due()
            if me.state == "runnable":
                return
            others = self._runnable_others(me)
            if others:
                c = self.dec.choose(len(others), 1.0) if len(others) > 1 else 0
                self._handoff(me, others[c], park=True)
                # resumed: somebody made us runnable (or shutdown)
                if me.state == "runnable" or me.kill:
                    return
                continue
            # nobody runnable: jump clock to next deadline
            dls = [a.deadline for a in self.actors if a.state == "blocked" and a.deadline is not None]
            if not dls:
                self.hist.add("deadlock", self.clock.ns, me.aid)
                if me is self.main:
                    raise SimDeadlock("main blocked forever")
                self.main.kill = True
                self.main.state = "runnable"
                self._handoff(me, self.main, park=True)
                return
            nxt = min(dls)
            if nxt > self.clock.ns:
                self.clock.ns = nxt
            self.hist.add("jump", self.clock.ns)

    # ------------------------------------------------------------------
    # blocking primitives
    # ------------------------------------------------------------------
    def sleep(self, seconds) -> None:
        # argument errors exactly as time.sleep reports them, before any scheduler state changes
        if isinstance(seconds, bool) or not isinstance(seconds, (int, float)):
            if hasattr(seconds, "__index__") or hasattr(seconds, "__float__"):
                seconds = float(seconds)
            else:
                raise TypeError(f"'{type(seconds).__name__}' object cannot be interpreted as an integer or float")
        if seconds != seconds:
            raise ValueError("Invalid value NaN (not a number)")
        if seconds < 0:
            raise ValueError("sleep length must be non-negative")
        if seconds > 9.0e9:
            raise OverflowError("timestamp too large to convert to C _PyTime_t")
        me = self.me()
        if me is None or me is not self.current:
            self.clock.advance(int(max(0.0, seconds) * 1e9))
            return
        if me.kill and me is not self.main:
            raise SimKilled
        if self.shutting_down:
            return
        me.state = "blocked"
        me.deadline = self.clock.ns + int(max(0.0, seconds) * 1e9)
        me.wait_for = None
        self.hist.add("sleep", self.clock.ns, me.aid, me.deadline)
        self._block(me)
        if me.kill and me is not self.main:
            raise SimKilled

    def join(self, target: Actor, timeout) -> None:
        me = self.me()
        if target.state == "finished":
            return
        if me is None or me is not self.current:
            raise RuntimeError("join from unmanaged thread")
        me.state = "blocked"
        me.wait_for = target
        me.deadline = None if timeout is None else self.clock.ns + int(max(0.0, timeout) * 1e9)
        me.timed_out = False
        self.hist.add("join", self.clock.ns, me.aid, target.aid, me.deadline)
        self._block(me)
        if self.overrun is not None and me is self.main:
            raise SimOverrun(self.overrun)

    def lock_acquire(self, lock) -> None:
        me = self.me()
        if me is None or me is not self.current:
            if lock.locked_by:
                raise RuntimeError("SimLock contended from unmanaged thread")
            lock.locked_by = -1
            return
        while lock.locked_by:
            if self.shutting_down:
                break  # holder is dead or parked for good; shutdown must progress
            me.state = "blocked"
            me.wait_lock = lock
            me.deadline = None
            me.wait_for = None
            self.hist.add("lockwait", self.clock.ns, me.aid)
            self.lock_contentions += 1
            t0 = self.clock.ns
            self._block(me)
            if me is self.main:
                self.main_preempted_ns += self.clock.ns - t0
            if self.overrun is not None and me is self.main:
                raise SimOverrun(self.overrun)
        lock.locked_by = me.aid + 1

    def finish(self, me: Actor) -> None:
        me.state = "finished"
        if self.debug_ring is not None:
            self.debug_ring.append(("finish", me.aid, [(a.aid, a.state) for a in self.actors if a.state != "finished"]))
        self.hist.add("fin", self.clock.ns, me.aid)
        self._wake_due()
        if self.shutting_down:
            self.current = self.main
            self.main.sem.release()
            return
        others = self._runnable_others(me)
        if not others:
            # advance time for blocked ones
            dls = [a.deadline for a in self.actors if a.state == "blocked" and a.deadline is not None]
            if dls:
                self.clock.ns = max(self.clock.ns, min(dls))
                self._wake_due()
                others = self._runnable_others(me)
        if not others:
            # nothing to run: give main a deadlock
            self.main.kill = True
            self.main.state = "runnable"
            others = [self.main]
        c = self.dec.choose(len(others), 1.0) if len(others) > 1 else 0
        self._handoff(me, others[c], park=False)

    # ------------------------------------------------------------------
    def mark_abandoned(self) -> int:
        n = 0
        for a in self.actors:
            if a is not self.main and a.state != "finished" and not a.abandoned:
                a.abandoned = True
                n += 1
        return n

    def shutdown(self, max_steps: int = 200_000) -> int:
        """Kill every unfinished actor at its next safe point. Returns #killed."""
        assert self.me() is self.main
        self.shutting_down = True
        killed = 0
        for a in self.actors:
            if a is self.main or a.state == "finished":
                continue
            killed += 1
            a.kill = True
            a.state = "runnable"
            a.deadline = None
            a.wait_for = None
            self.current = a
            a.sem.release()
            self.main.sem.acquire()
            if a.state != "finished":
                raise RuntimeError(f"actor {a.name} did not finish during shutdown")
        self.current = self.main
        self.clock.sleeper = None
        return killed


class SimThread(_RealThread):
    """threading.Thread replacement driven by the active scheduler."""

    scheduler: Scheduler | None = None

    def __init__(self, *args, **kwargs):
        super().__init__(*args, **kwargs)
        self._sim_sched = SimThread.scheduler
        self._sim_actor: Actor | None = None

    def start(self):
        s = self._sim_sched
        if s is None:
            return super().start()
        self._sim_actor = s._new_actor(f"t{len(s.actors)}", self)
        s.hist.add("start", s.clock.ns, self._sim_actor.aid)
        super().start()
        s.yield_point("pyn")
        return None

    def run(self):
        s = self._sim_sched
        if s is None:
            return super().run()
        me = self._sim_actor
        me.sem.acquire()
        s.local.actor = me
        sys.settrace(s.tracefn)
        try:
            if not me.kill:
                super().run()
        except SimKilled:
            pass
        except BaseException as e:  # noqa: BLE001
            s.thread_errors.append((me.aid, type(e).__name__, str(e)[:200]))
            s.hist.add("thread_error", me.aid, type(e).__name__)
        finally:
            sys.settrace(None)
            s.finish(me)
        return None

    def join(self, timeout=None):
        s = self._sim_sched
        if s is None or self._sim_actor is None:
            return super().join(timeout)
        s.join(self._sim_actor, timeout)
        return None

    def is_alive(self):
        s = self._sim_sched
        if s is None or self._sim_actor is None:
            return super().is_alive()
        return self._sim_actor.state != "finished"


class SimLock:
    """threading.Lock replacement: contention becomes a scheduler block."""

    def __init__(self):
        self.locked_by = 0
        self._sched = SimThread.scheduler

    def acquire(self, blocking=True, timeout=-1):
        s = SimThread.scheduler or self._sched
        if s is None:
            if self.locked_by:
                raise RuntimeError("SimLock contended without scheduler")
            self.locked_by = -1
            return True
        s.lock_acquire(self)
        return True

    def release(self):
        self.locked_by = 0

    def locked(self):
        return bool(self.locked_by)

    def __enter__(self):
        self.acquire()
        return self

    def __exit__(self, *a):
        self.release()


class ThreadingShim:
    """Stands in for the `threading` module global of a pynguin module."""

    def __init__(self):
        self.Thread = SimThread
        self.Lock = SimLock

    def __getattr__(self, name):
        return getattr(_threading, name)
