"""E4 helper: real TestFactory / chromosome factories / fitness functions for one corpus module."""

from __future__ import annotations

import tempfile

from . import pyn


class OpsEnv:
    def __init__(self, module_name: str, algorithm: str = "DYNAMOSA", **sections):
        self.config, self.gen = pyn.import_pynguin()
        self.out_dir = tempfile.mkdtemp(prefix="verif-e4-")
        cfg = pyn.make_config(module_name, self.out_dir, algorithm=getattr(self.config.Algorithm, algorithm), **sections)
        cfg.stopping.maximum_iterations = 5
        self.cfg = cfg
        self.executor, self.cluster, self.constants = pyn.setup_sut(cfg)
        self.strategy = self.gen._instantiate_test_generation_strategy(self.executor, self.cluster, self.constants)
        # stopping conditions observe the executor; drop them, the harness drives the components itself
        self.executor.clear_observers()
        self.factory = self.strategy.test_factory
        self.chromosome_factory = self.strategy.chromosome_factory
        self.module_name = module_name
        self.alias = pyn.alias(module_name)
        from pynguin.utils import randomness

        self.randomness = randomness
        self._defaults = self._snapshot_cfg()

    _KNOBS = (("test_creation", "max_recursion"), ("test_creation", "object_reuse_probability"),
              ("test_creation", "none_weight"), ("test_creation", "any_weight"),
              ("test_creation", "primitive_reuse_probability"),
              ("search_algorithm", "chromosome_length"), ("search_algorithm", "chop_max_length"),
              ("search_algorithm", "statement_insertion_probability"),
              ("search_algorithm", "change_statement_type_probability"),
              ("search_algorithm", "test_delete_probability"), ("search_algorithm", "test_change_probability"),
              ("search_algorithm", "test_insert_probability"), ("search_algorithm", "test_insertion_probability"),
              ("test_creation", "max_size"))

    def _snapshot_cfg(self):
        return {(s, k): getattr(getattr(self.cfg, s), k) for s, k in self._KNOBS}

    def apply_knobs(self, knobs: dict) -> None:
        for (s, k), v in self._defaults.items():
            setattr(getattr(self.cfg, s), k, v)
        for key, v in knobs.items():
            s, k = key.split(".")
            assert (s, k) in self._defaults, key
            setattr(getattr(self.cfg, s), k, v)

    def reseed(self, seed: int) -> None:
        self.randomness.RNG.seed(seed)
