"""C13 The archive never loses a covered goal or a better solution (E1 monitor)."""

from __future__ import annotations

from ..pipeline import Monitor, gen_base_case, run_pipeline
from ..simkit import Streams

ID = "C13"
LEVEL = "exploration"
RULE = ("Each case = one whole simulated Pynguin run with an archive-based algorithm (DYNAMOSA, MOSA, MIO, WHOLE_SUITE "
        "with archive) on a corpus module, small populations, seeded budgets; faults: injected execution timeouts, "
        "buggified RNG draws. The harness records every assignment to CoverageArchive._covered (operation level) and "
        "inspects the archive at every iteration boundary: covered set only grows; every archived solution covers its "
        "goal when a clone is re-executed on a private executor; every replacement is justified (errorful -> "
        "error-free, or strictly shorter); MIO populations respect capacity, covered targets keep exactly one "
        "solution with h=1 and stay covered. Non-trivial = at least one replacement of an archived solution or >= 3 "
        "newly covered goals after the first boundary; distinct = distinct run digest.")
ASSUMPTIONS = [
    "corpus modules are deterministic and stateless, so re-executing a clone is a sound coverage oracle",
    "monitor re-executions run on a private executor; they can perturb dynamic constant seeding order but the "
    "perturbed run is still a legal run",
]
REAL = ["generator.run_pynguin end to end", "CoverageArchive / MIOArchive / _GoalsManager", "DynaMOSA, MOSA, MIO, WholeSuite"]
STUBS = ["time module (SimClock)", "randomness.RNG object (instrumented)", "thread scheduling (time-driven baton)"]
MANIFEST = {
    "engine": "E1-pipeline",
    "technique": "deterministic simulation of whole search runs with injected timeouts; archive invariants checked at "
                 "every recorded archive write and every iteration boundary, with re-execution as coverage oracle",
    "text": "Seeded exploration of search histories; invariant checking after every iteration and at every archive "
            "write: monotone covered set, archived tests really cover (fresh re-execution), justified replacements, "
            "MIO capacity/uniqueness. Sampling, not enumeration.",
    "note": "Trusted: recording dict installed in place of CoverageArchive._covered (same semantics), private executor.",
    "ref": "DESIGN.md §3 C13",
}
BUDGET = {
    "quick": {"runs": 256, "chunk": 8, "wall": 170, "chunk_timeout": 300, "selfcheck": 16},
    "thorough": {"runs": 8000, "chunk": 16, "wall": 1700, "chunk_timeout": 600, "selfcheck": 64},
}
_ALGOS = ["DYNAMOSA", "DYNAMOSA", "MOSA", "MIO", "WHOLE_SUITE"]


def gen_case(run_seed: int, tier: str) -> dict:
    st = Streams(run_seed)
    r, k, f = st.get("ops"), st.get("knobs"), st.get("faults")
    case = gen_base_case(run_seed, r, k, algorithms=_ALGOS,
                         modules=["tiny", "words", "shapes", "floats", "zoo", "plain", "nested", "nested"])
    kn = case["knobs"]
    kn["iterations"] = k.choice([3, 5, 8, 12])
    kn["assertions"] = "NONE"
    kn["use_archive"] = True
    kn["local_search"] = k.random() < 0.25
    case["timeout_p"] = f.choice([0.0, 0.0, 0.05, 0.15])
    case["buggify_p"] = f.choice([0.0, 0.0, 0.01])
    return case


def _errorful(chrom) -> bool:
    res = chrom.get_last_execution_result()
    return res is not None and (res.timeout or res.has_test_exceptions())


class RecordingDict(dict):
    """dict with identical semantics that reports replacements of existing keys."""

    def __init__(self, *a, on_set=None, **k):
        super().__init__(*a, **k)
        self._on_set = on_set

    def __setitem__(self, key, value):
        old = self.get(key)
        if self._on_set is not None:
            self._on_set(key, old, value)
        super().__setitem__(key, value)


class ArchiveMonitor(Monitor):
    def __init__(self):
        self.prev_covered = None
        self.prev_public = None
        self.checked = set()
        self.replacements = 0
        self.new_goals_after_first = 0
        self.boundaries = 0
        self.reexecutions = 0
        self.mio_covered_prev = set()
        self.priv = None

    def on_algorithm(self, run, algo):
        import pynguin.ga.algorithms.archive as arch

        self.arch = arch
        archive = getattr(algo, "_archive", None)
        self.archive = archive
        mon = self
        if isinstance(archive, arch.CoverageArchive):
            def on_set(goal, old, new):
                if old is None or old is new:
                    return
                mon.replacements += 1
                run.probe("archive_replacements")
                ok_cover = new.get_is_covered(goal)
                better = (_errorful(old) and not _errorful(new)) or new.size() < old.size()
                run.hist.add("repl", str(goal), old.size(), new.size(), _errorful(old), _errorful(new))
                if not ok_cover:
                    run.violate("replace:new-does-not-cover",
                                f"archive replaced the solution of {goal} by one that does not cover it")
                elif not better:
                    run.violate("replace:not-better",
                                f"archive replaced solution of {goal}: old size={old.size()} errorful={_errorful(old)}, "
                                f"new size={new.size()} errorful={_errorful(new)} (neither error-free-improvement "
                                f"nor strictly shorter)")

            archive._covered = RecordingDict(archive._covered, on_set=on_set)

    # ------------------------------------------------------------------
    def _fresh_covers(self, run, goal_ff, chrom) -> bool | None:
        goal = getattr(goal_ff, "_goal", None)
        if goal is None:
            return None
        if self.priv is None:
            self.priv = run.private_executor()
        self.reexecutions += 1
        res = self.priv.execute(chrom.test_case.clone())
        return bool(goal.is_covered(res))

    def _check(self, run, final=False):
        arch = self.arch
        a = self.archive
        if a is None:
            return
        self.boundaries += 1
        if isinstance(a, arch.CoverageArchive):
            covered = dict(a._covered)
            cur = set(covered)
            if self.prev_covered is not None:
                lost = self.prev_covered - cur
                if lost:
                    run.violate("covered-goal-lost", f"goals {sorted(map(str, lost))[:3]} were covered at the previous "
                                                     f"boundary and are not any more")
                if self.boundaries > 1:
                    self.new_goals_after_first += len(cur - self.prev_covered)
            self.prev_covered = cur
            unc = set(a.uncovered_goals)
            if cur & unc:
                run.violate("covered-and-uncovered", f"goals both covered and uncovered: {sorted(map(str, cur & unc))[:3]}")
            # the views the algorithms and the exporter read must tell the same story as the map
            pub = set(a.covered_goals)
            if pub != cur:
                run.violate("covered_goals-view-differs",
                            f"covered_goals reports {len(pub)} goals, the archive map holds {len(cur)}; only in the map: "
                            f"{sorted(map(str, cur - pub))[:3]}; only in the view: {sorted(map(str, pub - cur))[:3]}")
            if self.prev_public is not None and self.prev_public - pub:
                run.violate("covered-goal-lost:view", f"covered_goals no longer lists {sorted(map(str, self.prev_public - pub))[:3]}")
            self.prev_public = pub
            try:
                sols = list(a.solutions)
            except AssertionError:
                sols = None
                run.violate("archive-solutions-assert", "archive.solutions asserted")
            if sols is not None:
                for goal in cur:
                    if not any(s_.get_is_covered(goal) for s_ in sols):
                        run.violate("solutions-view-misses-covered-goal",
                                    f"{goal} is covered, but no test case in archive.solutions ({len(sols)} tests) covers it")
                        break
            for goal, sol in covered.items():
                if not sol.get_is_covered(goal):
                    run.violate("archived-not-covering-cached", f"{goal}: archived solution reports get_is_covered=False")
                key = (goal, id(sol), sol.test_case.to_code())
                if key in self.checked:
                    continue
                self.checked.add(key)
                fresh = self._fresh_covers(run, goal, sol)
                if fresh is False:
                    run.violate("archived-not-covering-fresh",
                                f"{goal}: archived solution does not cover the goal when re-executed:\n"
                                f"{sol.test_case.to_code()}")
        elif isinstance(a, arch.MIOArchive):
            now_cov = set()
            for target, pop in a._archive.items():
                n = len(pop._solutions)
                if n > pop._capacity:
                    run.violate("mio:capacity-exceeded", f"{target}: {n} solutions, capacity {pop._capacity}")
                hs = [p.h for p in pop._solutions]
                if any(h == 1.0 for h in hs) and not (n == 1 and pop._capacity == 1):
                    run.violate("mio:covered-target-not-single", f"{target}: h values {hs}, capacity {pop._capacity}")
                if pop.is_covered:
                    now_cov.add(target)
                    sol = pop._solutions[0].test_case_chromosome
                    key = (target, id(sol), sol.test_case.to_code())
                    if key not in self.checked:
                        self.checked.add(key)
                        fresh = self._fresh_covers(run, target, sol)
                        if fresh is False:
                            run.violate("mio:archived-not-covering-fresh",
                                        f"{target}: archived solution does not cover when re-executed:\n"
                                        f"{sol.test_case.to_code()}")
            lost = self.mio_covered_prev - now_cov
            if lost:
                run.violate("mio:covered-target-lost", f"targets {sorted(map(str, lost))[:3]} no longer covered")
            if self.boundaries > 1:
                self.new_goals_after_first += len(now_cov - self.mio_covered_prev)
            self.mio_covered_prev = now_cov

    def before_first_iteration(self, run, initial):
        self._check(run)

    def after_iteration(self, run, best):
        self._check(run)

    def after_search(self, run):
        self._check(run, final=True)


def run_case(case: dict) -> dict:
    mon = ArchiveMonitor()
    run, res = run_pipeline(case, [mon])
    res["nontrivial"] = mon.replacements > 0 or mon.new_goals_after_first >= 3
    res["probes"].update(archive_boundaries=mon.boundaries, archive_replacements=mon.replacements,
                         monitor_reexecutions=mon.reexecutions, goals_covered_after_first_boundary=mon.new_goals_after_first)
    if case["run_seed"] % 11 == 0:
        res["sample"] = {"module": case["module"], "algorithm": case["algorithm"], "knobs": case["knobs"],
                         "timeout_p": case["timeout_p"], "iterations": res["iterations"],
                         "replacements": mon.replacements, "boundaries": mon.boundaries}
    res["executed_case"] = case
    return res


def minimise(case: dict, signature: str) -> dict:
    from .c17 import minimise as m

    return _min(case, signature)


def _min(case, signature):
    best = dict(case)

    def fails(c):
        try:
            r = run_case(c)
        except BaseException:  # noqa: BLE001
            return False
        return bool(r.get("violation")) and r["violation"]["signature"] == signature

    for key, vals in (("iterations", [1, 2, 3]), ("population", [4]), ("chromosome_length", [6])):
        for v in vals:
            if best["knobs"].get(key, 0) > v:
                c = dict(best, knobs=dict(best["knobs"], **{key: v}))
                if fails(c):
                    best = c
                    break
    for key in ("timeout_p", "buggify_p"):
        if best.get(key):
            c = dict(best, **{key: 0.0})
            if fails(c):
                best = c
    return best
