"""C34 Ordered sets behave as insertion-ordered sets and sequences (E4, reference model)."""

from __future__ import annotations

import copy

from .. import simkit
from ..simkit import Streams

ID = "C34"
LEVEL = "exploration"
RULE = ("Each case = seeded history of 10-40 operations on 2-3 live OrderedSet/FrozenOrderedSet objects (add, discard, "
        "remove, pop, clear, update, union/|, intersection/&, difference/-, symmetric_difference/^, the *_update and "
        "in-place forms, issubset/issuperset/isdisjoint, <=,<,>=,>, ==, index, count, s[i] for i in [-len-1,len], "
        "reversed, copy, freeze, hash) with arguments shaped as list, tuple, set, dict keys, generator, iter(list) "
        "(one-shot), another live ordered set, or the set itself; elements are strings, ints and tuples. After every "
        "operation the return value/exception class, contents and order of every live object are compared with a "
        "list-without-duplicates reference model. Non-trivial = history contains a one-shot iterator argument, a "
        "negative index or a self/alias argument; distinct = distinct history digest.")
ASSUMPTIONS = [
    "equality is order-sensitive and only defined between objects of the same ordered-set class (upstream semantics)",
    "pop() may return any element (the model accepts whichever element was removed)",
    "no clock, thread or I/O fault exists for this component: this is the sequential-refinement half of the technique",
]
REAL = ["pynguin.utils.orderedset.OrderedSet / FrozenOrderedSet (+ collections.abc mixins)"]
STUBS = []
MANIFEST = {
    "engine": "E4-stateful",
    "technique": "seeded operation histories checked step by step against an executable reference model "
                 "(sequential refinement), repeated under a second PYTHONHASHSEED in a fresh interpreter",
    "text": "Seeded exploration of operation histories on live ordered sets, with one-shot iterators (a consumed-once "
            "stream), aliasing and boundary indices as the adversarial inputs; every step is compared with a "
            "list+set reference model. No schedule or fault applies to this component (stated in DESIGN.md); the "
            "check is the reference-model half of the simulation family.",
    "note": "Trusted: the 60-line reference model in this file; Python's own set for membership.",
    "ref": "DESIGN.md §3 C34",
}
BUDGET = {
    "quick": {"runs": 6000, "chunk": 400, "wall": 120, "chunk_timeout": 200, "alt_hashseed_runs": 1500},
    "thorough": {"runs": 300000, "chunk": 4000, "wall": 1200, "chunk_timeout": 900, "alt_hashseed_runs": 30000},
}

_ELEMS = ["a", "b", "c", "dd", "e", 0, 1, 2, 3, -1, (1, 2), ("a",), "zeta", 10]


def setup_process():
    from .. import pyn

    pyn.import_pynguin()


class Model:
    def __init__(self, items=(), frozen=False):
        self.items = []
        self.frozen = frozen
        for x in items:
            if x not in self.items:
                self.items.append(x)


def _gen_arg(r, nlive):
    shape = r.choice(["list", "tuple", "set", "dictkeys", "generator", "iter", "live", "self", "range", "list",
                      "lazy_self", "iter_self", "filter_self", "lazy_live"])
    vals = [r.choice(_ELEMS) for _ in range(r.randrange(0, 6))]
    if shape == "live":
        return {"shape": "live", "ref": r.randrange(nlive)}
    if shape in ("self", "lazy_self", "iter_self", "filter_self"):
        return {"shape": shape}
    if shape == "lazy_live":
        return {"shape": "lazy_live", "ref": r.randrange(nlive)}
    if shape == "range":
        return {"shape": "range", "n": r.randrange(0, 5)}
    return {"shape": shape, "vals": vals}


_BINARY = ["union", "intersection", "difference", "symmetric_difference", "or", "and", "sub", "xor"]
_INPLACE = ["update", "difference_update", "intersection_update", "symmetric_difference_update",
            "ior", "iand", "isub", "ixor"]
_PRED = ["issubset", "issuperset", "isdisjoint", "le", "lt", "ge", "gt", "eq"]


def gen_case(run_seed: int, tier: str) -> dict:
    r = Streams(run_seed).get("ops")
    nlive = r.randrange(2, 4)
    init = [{"frozen": (i == nlive - 1 and r.random() < 0.5), "vals": [r.choice(_ELEMS) for _ in range(r.randrange(0, 6))]}
            for i in range(nlive)]
    ops = []
    for _ in range(r.randrange(10, 41)):
        tgt = r.randrange(nlive)
        k = r.random()
        if k < 0.18:
            ops.append({"op": r.choice(["add", "discard", "remove"]), "t": tgt, "v": r.choice(_ELEMS)})
        elif k < 0.22:
            ops.append({"op": r.choice(["pop", "clear"]), "t": tgt})
        elif k < 0.42:
            ops.append({"op": r.choice(_BINARY), "t": tgt, "arg": _gen_arg(r, nlive), "store": r.randrange(nlive)})
        elif k < 0.62:
            ops.append({"op": r.choice(_INPLACE), "t": tgt, "arg": _gen_arg(r, nlive)})
        elif k < 0.76:
            ops.append({"op": r.choice(_PRED), "t": tgt, "arg": _gen_arg(r, nlive)})
        elif k < 0.88:
            ops.append({"op": "getitem", "t": tgt, "i": r.randrange(-7, 7)})
        elif k < 0.94:
            ops.append({"op": r.choice(["index", "count", "contains"]), "t": tgt, "v": r.choice(_ELEMS)})
        else:
            ops.append({"op": r.choice(["reversed", "copy", "freeze", "hash", "len", "repr"]), "t": tgt,
                        "store": r.randrange(nlive)})
    return {"run_seed": run_seed, "init": init, "ops": ops}


# ---------------------------------------------------------------------------
def _mk_arg(arg, live, models, t):
    """-> (real argument, model list, is_set_like)"""
    sh = arg["shape"]
    if sh == "live":
        ref = arg["ref"] % len(live)
        return live[ref], list(models[ref].items), True
    if sh == "self":
        return live[t], list(models[t].items), True
    # lazy iterables that READ the target (or another live set) while the operation runs; the reference semantics is
    # "as if the argument had been materialised first"
    if sh == "lazy_self":
        return (x for x in live[t]), list(models[t].items), False
    if sh == "iter_self":
        return iter(live[t]), list(models[t].items), False
    if sh == "filter_self":
        return filter(lambda x: len(repr(x)) % 2 == 0, live[t]), [x for x in models[t].items if len(repr(x)) % 2 == 0], False
    if sh == "lazy_live":
        ref = arg["ref"] % len(live)
        return (x for x in live[ref]), list(models[ref].items), False
    if sh == "range":
        return range(arg["n"]), list(range(arg["n"])), False
    vals = list(arg["vals"])
    vals = [tuple(v) if isinstance(v, list) else v for v in vals]
    if sh == "list":
        return list(vals), vals, False
    if sh == "tuple":
        return tuple(vals), vals, False
    if sh == "set":
        s = set(vals)
        return s, list(s), True
    if sh == "dictkeys":
        d = dict.fromkeys(vals)
        return d.keys(), list(d), True
    if sh == "generator":
        return (v for v in vals), vals, False
    return iter(vals), vals, False


def _uniq(seq):
    out = []
    for x in seq:
        if x not in out:
            out.append(x)
    return out


def _outcome(fn):
    try:
        return ("ok", fn())
    except Exception as e:  # noqa: BLE001
        return ("exc", type(e).__name__)


def run_case(case: dict) -> dict:
    from pynguin.utils.orderedset import FrozenOrderedSet, OrderedSet

    hist = simkit.History()
    live, models = [], []
    for ini in case["init"]:
        vals = [tuple(v) if isinstance(v, list) else v for v in ini["vals"]]
        live.append((FrozenOrderedSet if ini["frozen"] else OrderedSet)(vals))
        models.append(Model(vals, ini["frozen"]))
    violation = None
    probes = {"oneshot_args": 0, "negative_index": 0, "alias_args": 0, "ops": 0, "exceptions_agreed": 0}

    def fail(op, shape, kind, msg):
        return {"signature": f"{op['op']}:{shape}:{kind}", "message": msg}

    for n, op in enumerate(case["ops"]):
        t = op["t"] % len(live)
        s, m = live[t], models[t]
        name = op["op"]
        shape = "-"
        probes["ops"] += 1
        expected = got = None
        if "arg" in op:
            real_arg, marg, setlike = _mk_arg(op["arg"], live, models, t)
            shape = op["arg"]["shape"]
            if name in ("ior", "iand", "isub", "ixor") and shape in ("lazy_self", "iter_self", "filter_self", "lazy_live"):
                # the in-place OPERATORS are collections.abc.MutableSet's: they discard while iterating the operand,
                # as every MutableSet does; a lazy operand that reads the target is outside their contract, so it is
                # handed over as an independent one-shot iterator (the named *_update methods get the lazy one)
                real_arg = iter(list(real_arg))
            if shape in ("generator", "iter", "lazy_self", "iter_self", "filter_self", "lazy_live"):
                probes["oneshot_args"] += 1
            if shape in ("live", "self"):
                probes["alias_args"] += 1
        if "v" in op and isinstance(op["v"], list):
            op = dict(op, v=tuple(op["v"]))
        mutating = name in ("add", "discard", "remove", "pop", "clear", *_INPLACE)
        if mutating and m.frozen:
            # frozen sets have no mutators: AttributeError / TypeError for operators is fine
            hist.add(n, name, "frozen-skip")
            continue
        # ---- compute expectation on the model and outcome on the real object
        if name == "add":
            got = _outcome(lambda: s.add(op["v"]))
            if op["v"] not in m.items:
                m.items.append(op["v"])
            expected = ("ok", None)
        elif name == "discard":
            got = _outcome(lambda: s.discard(op["v"]))
            if op["v"] in m.items:
                m.items.remove(op["v"])
            expected = ("ok", None)
        elif name == "remove":
            got = _outcome(lambda: s.remove(op["v"]))
            if op["v"] in m.items:
                m.items.remove(op["v"])
                expected = ("ok", None)
            else:
                expected = ("exc", "KeyError")
        elif name == "pop":
            got = _outcome(s.pop)
            if m.items:
                if got[0] == "ok" and got[1] in m.items:
                    m.items.remove(got[1])
                    expected = got
                else:
                    expected = ("ok", "<some element>")
            else:
                expected = ("exc", "KeyError")
        elif name == "clear":
            got = _outcome(s.clear)
            m.items.clear()
            expected = ("ok", None)
        elif name in _BINARY:
            a, b = list(m.items), marg
            if name in ("union", "or"):
                exp = _uniq(a + b)
            elif name in ("intersection", "and"):
                exp = [x for x in a if x in b]
            elif name in ("difference", "sub"):
                exp = [x for x in a if x not in b]
            else:
                exp = [x for x in a if x not in b] + [x for x in _uniq(b) if x not in a]
            fn = {"union": lambda: s.union(real_arg), "intersection": lambda: s.intersection(real_arg),
                  "difference": lambda: s.difference(real_arg),
                  "symmetric_difference": lambda: s.symmetric_difference(real_arg),
                  "or": lambda: s | real_arg, "and": lambda: s & real_arg, "sub": lambda: s - real_arg,
                  "xor": lambda: s ^ real_arg}[name]
            got = _outcome(fn)
            expected = ("ok", exp)
            if got[0] == "ok":
                res = got[1]
                if type(res) is not type(s):
                    violation = fail(op, shape, "wrong-result-type", f"op #{n} {name}({shape}) returned {type(res).__name__}")
                    break
                got = ("ok", list(res))
                if got[1] == exp:
                    st = op["store"] % len(live)
                    live[st] = res
                    models[st] = Model(exp, isinstance(res, FrozenOrderedSet))
        elif name in _INPLACE:
            a, b = list(m.items), marg
            if name in ("update", "ior"):
                exp = _uniq(a + b)
            elif name in ("difference_update", "isub"):
                exp = [x for x in a if x not in b]
            elif name in ("intersection_update", "iand"):
                exp = [x for x in a if x in b]
            else:
                exp = [x for x in a if x not in b] + [x for x in _uniq(b) if x not in a]

            def do(name=name, s=s, real_arg=real_arg):
                if name == "ior":
                    s |= real_arg
                elif name == "iand":
                    s &= real_arg
                elif name == "isub":
                    s -= real_arg
                elif name == "ixor":
                    s ^= real_arg
                else:
                    getattr(s, name)(real_arg)

            got = _outcome(do)
            m.items[:] = exp
            expected = ("ok", None)
        elif name in _PRED:
            a, b = m.items, marg
            if name == "issubset":
                exp, fn = all(x in b for x in a), lambda: s.issubset(real_arg)
            elif name == "issuperset":
                exp, fn = all(x in a for x in b), lambda: s.issuperset(real_arg)
            elif name == "isdisjoint":
                exp, fn = not any(x in a for x in b), lambda: s.isdisjoint(real_arg)
            elif name == "eq":
                if not (setlike and type(real_arg) is type(s)):
                    hist.add(n, name, "skip")
                    continue
                exp, fn = list(a) == list(b), lambda: s == real_arg
            else:
                if not setlike:
                    hist.add(n, name, "skip")
                    continue
                sa, sb = set(a), set(b)
                exp = {"le": sa <= sb, "lt": sa < sb, "ge": sa >= sb, "gt": sa > sb}[name]
                fn = {"le": lambda: s <= real_arg, "lt": lambda: s < real_arg, "ge": lambda: s >= real_arg,
                      "gt": lambda: s > real_arg}[name]
            got = _outcome(fn)
            expected = ("ok", exp)
        elif name == "getitem":
            i = op["i"]
            if i < 0:
                probes["negative_index"] += 1
            got = _outcome(lambda: s[i])
            expected = ("ok", m.items[i]) if -len(m.items) <= i < len(m.items) else ("exc", "IndexError")
            shape = "negative-index" if i < 0 else "index"
        elif name == "index":
            got = _outcome(lambda: s.index(op["v"]))
            expected = ("ok", m.items.index(op["v"])) if op["v"] in m.items else ("exc", "ValueError")
        elif name == "count":
            got = _outcome(lambda: s.count(op["v"]))
            expected = ("ok", 1 if op["v"] in m.items else 0)
        elif name == "contains":
            got = _outcome(lambda: op["v"] in s)
            expected = ("ok", op["v"] in m.items)
        elif name == "reversed":
            got = _outcome(lambda: list(reversed(s)))
            expected = ("ok", list(reversed(m.items)))
        elif name == "len":
            got = _outcome(lambda: len(s))
            expected = ("ok", len(m.items))
        elif name == "repr":
            got = _outcome(lambda: repr(s))
            expected = ("ok", f"{type(s).__name__}({m.items!r})" if m.items else f"{type(s).__name__}()")
        elif name in ("copy", "freeze"):
            if name == "freeze" and m.frozen:
                hist.add(n, name, "skip")
                continue
            got = _outcome((lambda: copy.copy(s)) if name == "copy" else s.freeze)
            expected = ("ok", list(m.items))
            if got[0] == "ok":
                res = got[1]
                want_cls = type(s) if name == "copy" else FrozenOrderedSet
                if type(res) is not want_cls or res is s:
                    violation = fail(op, shape, "wrong-result-type", f"op #{n} {name} returned {type(res).__name__}")
                    break
                got = ("ok", list(res))
                st = op["store"] % len(live)
                live[st] = res
                models[st] = Model(m.items, isinstance(res, FrozenOrderedSet))
        elif name == "hash":
            if not m.frozen:
                hist.add(n, name, "skip")
                continue
            h1 = _outcome(lambda: hash(s))
            h2 = _outcome(lambda: hash(type(s)(list(m.items))))
            got, expected = h1, h2
        hist.add(n, name, shape, repr(got)[:80])
        if got != expected:
            kind = "raises-" + got[1] if got[0] == "exc" else (
                "no-exception" if expected[0] == "exc" else "wrong-result")
            violation = fail(op, shape, kind,
                             f"op #{n} {name}({shape}) on {type(s).__name__}: got {got!r}, model expects {expected!r}")
            break
        if got[0] == "exc":
            probes["exceptions_agreed"] += 1
        # cross-invariant: every live object equals its model (contents and order)
        bad = None
        for j, (lo, mo) in enumerate(zip(live, models, strict=True)):
            if list(lo) != mo.items or len(lo) != len(mo.items):
                bad = (j, list(lo), list(mo.items))
                break
        if bad:
            violation = fail(op, shape, "wrong-contents",
                             f"after op #{n} {name}({shape}) live[{bad[0]}] = {bad[1]!r}, model = {bad[2]!r}")
            break
    nontrivial = bool(probes["oneshot_args"] or probes["negative_index"] or probes["alias_args"])
    return {
        "violation": violation,
        "digest": hist.digest(),
        "nontrivial": nontrivial,
        "probes": probes,
        "faults": {"one_shot_iterator_argument": probes["oneshot_args"], "alias_or_self_argument": probes["alias_args"],
                   "negative_index": probes["negative_index"]},
        "sim_ns": 0,
        "sample": {"init": case["init"], "ops": case["ops"][:12]} if case["run_seed"] % 997 == 0 else None,
        "executed_case": case,
    }
