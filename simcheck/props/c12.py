"""C12 Cached fitness and coverage values are never stale (E4)."""

from __future__ import annotations

import hashlib
import math

from .. import simkit
from ..opsenv import OpsEnv
from ..simkit import Streams

ID = "C12"
LEVEL = "exploration"
RULE = ("Each case = seeded history of 12-40 operations on a pool of 2-5 real test-case chromosomes and 1-3 test-suite "
        "chromosomes over a corpus module (BRANCH+LINE instrumentation): real TestCaseMutation / TestSuiteMutation, "
        "single-point crossover (test cases and suites), clone, add_fitness_function / add_coverage_function for "
        "functions registered late, suite add/delete/set_test_case_chromosome, and queries get_fitness, "
        "get_fitness_for(f), get_is_covered(f), get_coverage, get_coverage_for(c) for registered functions in seeded "
        "order and partial subsets, including 'suite first, then its test cases'. Only histories Pynguin itself performs "
        "(a test inside a suite is mutated through the suite). Faults: content-keyed execution timeouts, extreme "
        "mutation probabilities. After every query the value is compared with a from-scratch recomputation on a fresh "
        "chromosome built from clones of the current tests. Non-trivial = a query hit a warm cache after a mutating "
        "operation at least twice; distinct = distinct history digest.")
ASSUMPTIONS = [
    "corpus modules are deterministic and stateless, so recomputation on clones is a sound reference",
    "injected timeouts are content-keyed, so recomputation sees the same fault",
]
REAL = ["ComputationCache", "Chromosome/TestCaseChromosome/TestSuiteChromosome", "TestCaseMutation/TestSuiteMutation",
        "crossover operators", "real fitness and coverage functions", "TestCaseExecutor"]
STUBS = ["none (randomness.RNG reseeded per case)"]
MANIFEST = {
    "engine": "E4-stateful",
    "technique": "seeded operation histories (edits interleaved with partial cache queries) on live chromosomes with "
                 "injected execution timeouts; every answer compared with a from-scratch reference recomputation",
    "text": "Seeded exploration of edit/query interleavings on real chromosomes with real operators and fitness "
            "functions; reference-model oracle after every query (fresh chromosome, cold cache), plus 'no exception "
            "for a registered function'.",
    "note": "Trusted: reference recomputation through the same fitness functions on fresh clones.",
    "ref": "DESIGN.md §3 C12",
}
BUDGET = {
    "quick": {"runs": 1000, "chunk": 25, "wall": 170, "chunk_timeout": 600},
    "thorough": {"runs": 16000, "chunk": 80, "wall": 1700, "chunk_timeout": 1200},
}
_MODULES = ["tiny", "words", "shapes", "floats", "zoo"]
_env: dict = {}


def group_key(item):
    return item % len(_MODULES) if isinstance(item, int) else -1


def setup_process():
    from .. import pyn

    pyn.import_pynguin()


def get_env(module: str) -> OpsEnv:
    old = _env.pop("env", None)
    if old is not None:
        import shutil

        shutil.rmtree(old.out_dir, ignore_errors=True)
    import pynguin.configuration as config

    _env["env"] = OpsEnv(module, "DYNAMOSA", statistics_output={
        "coverage_metrics": [config.CoverageMetric.BRANCH]})
    return _env["env"]


_TC_OPS = ["mutate", "mutate", "crossover", "clone", "add_ff", "q_fitness", "q_fitness_for", "q_is_covered",
           "q_is_covered", "q_fitness_for", "q_coverage", "q_coverage_for", "remutate_unchanged"]
_SUITE_OPS = ["s_mutate", "s_mutate", "s_crossover", "s_clone", "s_add", "s_delete", "s_set", "s_q_fitness",
              "s_q_coverage", "s_q_fitness_for", "s_q_is_covered", "s_q_coverage_for", "s_then_tests", "s_add_cf"]


def gen_case(run_seed: int, tier: str) -> dict:
    st = Streams(run_seed)
    r, k, f = st.get("ops"), st.get("knobs"), st.get("faults")
    module = _MODULES[run_seed % len(_MODULES)]
    ops = []
    for _ in range(r.randrange(12, 41)):
        suite = r.random() < 0.45
        ops.append({"op": r.choice(_SUITE_OPS if suite else _TC_OPS), "a": r.randrange(8), "b": r.randrange(8),
                    "f": r.randrange(64)})
    knobs = {
        "search_algorithm.chromosome_length": k.choice([6, 12, 48]),
        "search_algorithm.test_delete_probability": k.choice([1 / 3, 1.0, 0.0]),
        "search_algorithm.statement_insertion_probability": k.choice([0.5, 0.9, 0.9]),
        "search_algorithm.test_change_probability": k.choice([1 / 3, 0.0]),
        "search_algorithm.test_insert_probability": k.choice([1 / 3, 0.0, 1.0]),
        "search_algorithm.test_insertion_probability": k.choice([0.1, 0.6]),
        "test_creation.max_recursion": k.choice([1, 3, 10]),
    }
    return {"run_seed": run_seed, "module": module, "seed": r.randrange(1, 100000), "ntests": r.randrange(2, 6),
            "nsuites": r.randrange(1, 4), "ops": ops, "knobs": knobs, "timeout_p": f.choice([0.0, 0.0, 0.1, 0.3])}


def _close(a, b) -> bool:
    if isinstance(a, bool) or isinstance(b, bool):
        return a == b
    return a == b or (math.isfinite(a) and math.isfinite(b) and math.isclose(a, b, rel_tol=1e-12, abs_tol=1e-12))


def run_case(case: dict) -> dict:
    env = get_env(case["module"])
    import pynguin.ga.computations as ff
    import pynguin.ga.operators.crossover as co
    import pynguin.ga.testcasechromosome as tcc
    import pynguin.ga.testsuitechromosome as tsc
    import pynguin.testcase.execution as ex
    from pynguin.testcase.execution_result import ExecutionResult

    env.apply_knobs(case["knobs"])
    env.reseed(case["seed"])
    hist = simkit.History()
    executor = env.executor
    injected = [0]
    orig_execute = ex.TestCaseExecutor.execute
    tp = case["timeout_p"]

    def execute(self_ex, test_case):
        if tp:
            h = int(hashlib.sha256(test_case.to_code().encode()).hexdigest()[:8], 16) / 0xFFFFFFFF
            if h < tp:
                injected[0] += 1
                return ExecutionResult(timeout=True)
        return orig_execute(self_ex, test_case)

    ex.TestCaseExecutor.execute = execute
    violation = None
    probes = {"queries": 0, "warm_queries_after_edit": 0, "edits": 0, "suite_queries": 0, "late_functions_added": 0,
              "no_sut_call_restore_path": 0}
    try:
        all_tc_ffs = list(env.strategy.test_case_fitness_functions)
        # register only part of the functions at first; the rest is added late by add_ff ops
        rng = simkit.HRandom(case["seed"])
        early = all_tc_ffs[: max(2, len(all_tc_ffs) // 2)]
        late = all_tc_ffs[len(early):]
        tc_cov = ff.TestCaseBranchCoverageFunction(executor)
        suite_ffs = [ff.BranchDistanceTestSuiteFitnessFunction(executor)]
        suite_cfs = [ff.TestSuiteBranchCoverageFunction(executor)]
        late_suite_cf = ff.TestSuiteBranchCoverageFunction(executor)

        def new_tc():
            c = env.chromosome_factory.get_chromosome()
            fresh = tcc.TestCaseChromosome(test_case=c.test_case, test_factory=env.factory)
            for f_ in early:
                fresh.add_fitness_function(f_)
            fresh.add_coverage_function(tc_cov)
            return fresh

        tests = [new_tc() for _ in range(case["ntests"])]
        suites = []
        for _ in range(case["nsuites"]):
            s = tsc.TestSuiteChromosome(test_case_chromosome_factory=_Factory(new_tc))
            for t in tests[: rng.randrange(1, len(tests) + 1)]:
                s.add_test_case_chromosome(t.clone())
            for f_ in suite_ffs:
                s.add_fitness_function(f_)
            for c_ in suite_cfs:
                s.add_coverage_function(c_)
            suites.append(s)
        xo = co.SinglePointRelativeCrossOver()
        edited: set[int] = set()  # ids of chromosomes edited since their last full query

        def reference_tc(chrom):
            fresh = tcc.TestCaseChromosome(test_case=chrom.test_case.clone(), test_factory=env.factory)
            for f_ in chrom.get_fitness_functions():
                fresh.add_fitness_function(f_)
            for c_ in chrom.get_coverage_functions():
                fresh.add_coverage_function(c_)
            return fresh

        def reference_suite(s):
            fresh = tsc.TestSuiteChromosome()
            for t in s.test_case_chromosomes:
                fresh.add_test_case_chromosome(reference_tc(t))
            for f_ in s.get_fitness_functions():
                fresh.add_fitness_function(f_)
            for c_ in s.get_coverage_functions():
                fresh.add_coverage_function(c_)
            return fresh

        def query(chrom, kind, fidx, is_suite, n):
            nonlocal violation
            ref = reference_suite(chrom) if is_suite else reference_tc(chrom)
            ffs = chrom.get_fitness_functions()
            cfs = chrom.get_coverage_functions()
            probes["queries"] += 1
            if is_suite:
                probes["suite_queries"] += 1
            if id(chrom) in edited and not chrom.changed:
                pass
            try:
                if kind == "fitness":
                    got, want = chrom.get_fitness(), ref.get_fitness()
                elif kind == "fitness_for":
                    f_ = ffs[fidx % len(ffs)]
                    got, want = chrom.get_fitness_for(f_), ref.get_fitness_for(f_)
                elif kind == "is_covered":
                    f_ = ffs[fidx % len(ffs)]
                    got, want = chrom.get_is_covered(f_), ref.get_is_covered(f_)
                elif kind == "coverage":
                    got, want = chrom.get_coverage(), ref.get_coverage()
                else:
                    c_ = cfs[fidx % len(cfs)]
                    got, want = chrom.get_coverage_for(c_), ref.get_coverage_for(c_)
            except (KeyError, AssertionError) as e:
                violation = {"signature": f"query-raised:{kind}:{type(e).__name__}",
                             "message": f"op #{n}: {kind} query on a {'suite' if is_suite else 'test case'} raised "
                                        f"{type(e).__name__}: {e!r}"}
                return
            hist.add(n, kind, repr(got))
            if id(chrom) in edited:
                probes["warm_queries_after_edit"] += 1
            if not _close(got, want):
                violation = {
                    "signature": f"stale:{'suite' if is_suite else 'testcase'}:{kind}",
                    "message": f"op #{n}: {kind} on {'suite' if is_suite else 'test case'} returned {got!r}, "
                               f"recomputation from scratch gives {want!r} (history: "
                               f"{[o['op'] for o in case['ops'][:n + 1]]})",
                }

        for n, op in enumerate(case["ops"]):
            if violation:
                break
            name = op["op"]
            t = tests[op["a"] % len(tests)]
            s = suites[op["a"] % len(suites)]
            hist.add(n, name)
            if name == "mutate":
                had_call = env.factory.has_call_on_sut(t.test_case)
                t.mutate()
                if not had_call:
                    probes["no_sut_call_restore_path"] += 1
                probes["edits"] += 1
                edited.add(id(t))
            elif name == "remutate_unchanged":
                # query everything (cache warm, changed False), mutate, query a single function
                t.get_fitness()
                t.mutate()
                probes["edits"] += 1
                edited.add(id(t))
                query(t, "fitness_for", op["f"], False, n)
            elif name == "crossover":
                u = tests[op["b"] % len(tests)]
                if u is not t:
                    xo.cross_over(t, u)
                    probes["edits"] += 1
                    edited.update((id(t), id(u)))
            elif name == "clone":
                # keep BOTH the original and its clone alive (the clone replaces another pool slot), so that caches
                # shared between the two by mistake are observable
                tests[op["b"] % len(tests)] = t.clone()
                if id(t) in edited:
                    edited.add(id(tests[op["b"] % len(tests)]))
            elif name == "add_ff":
                if late:
                    f_ = late[op["f"] % len(late)]
                    if f_ not in t.get_fitness_functions():
                        t.add_fitness_function(f_)
                        probes["late_functions_added"] += 1
            elif name.startswith("q_"):
                query(t, name[2:], op["f"], False, n)
            elif name == "s_mutate":
                if s.size() > 0:
                    s.mutate()
                    probes["edits"] += 1
                    edited.add(id(s))
            elif name == "s_crossover":
                s2 = suites[op["b"] % len(suites)]
                if s2 is not s:
                    xo.cross_over(s, s2)
                    probes["edits"] += 1
                    edited.update((id(s), id(s2)))
            elif name == "s_clone":
                suites[op["b"] % len(suites)] = s.clone()
            elif name == "s_add":
                s.add_test_case_chromosome(tests[op["b"] % len(tests)].clone())
                edited.add(id(s))
                probes["edits"] += 1
            elif name == "s_delete":
                if s.size() > 1:
                    s.delete_test_case_chromosome(s.get_test_case_chromosome(op["b"] % s.size()))
                    edited.add(id(s))
                    probes["edits"] += 1
            elif name == "s_set":
                if s.size() > 0:
                    s.set_test_case_chromosome(op["b"] % s.size(), tests[op["f"] % len(tests)].clone())
                    edited.add(id(s))
                    probes["edits"] += 1
            elif name == "s_add_cf":
                if late_suite_cf not in s.get_coverage_functions():
                    s.add_coverage_function(late_suite_cf)
                    probes["late_functions_added"] += 1
            elif name == "s_then_tests":
                if s.size() > 0:
                    query(s, "fitness", 0, True, n)
                    inner = s.get_test_case_chromosome(op["b"] % s.size())
                    if violation is None and inner.get_fitness_functions():
                        query(inner, "fitness_for", op["f"], False, n)
                    if violation is None and inner.get_fitness_functions():
                        query(inner, "is_covered", op["f"] + 1, False, n)
                    if violation is None and inner.get_coverage_functions():
                        query(inner, "coverage" if op["f"] % 2 else "coverage_for", op["f"], False, n)
            elif name.startswith("s_q_"):
                if s.size() > 0:
                    query(s, name[4:], op["f"], True, n)
    except Exception as e:  # noqa: BLE001
        import traceback

        tb = traceback.extract_tb(e.__traceback__)
        where = next((f"{f.filename.rsplit('/', 1)[-1]}:{f.name}" for f in reversed(tb) if "/pynguin/" in f.filename), "?")
        violation = violation or {"signature": f"raised:{type(e).__name__}@{where}",
                                  "message": f"{type(e).__name__}: {e}\n{traceback.format_exc()[-1500:]}"}
    finally:
        ex.TestCaseExecutor.execute = orig_execute
    return {
        "violation": violation,
        "digest": hist.digest(),
        "nontrivial": probes["warm_queries_after_edit"] >= 2,
        "probes": probes,
        "faults": {"injected_timeout": injected[0]},
        "sim_ns": 0,
        "sample": {"module": case["module"], "ops": [o["op"] for o in case["ops"]][:24], "timeout_p": tp}
        if case["run_seed"] % 61 == 0 else None,
        "executed_case": case,
    }


class _Factory:
    """Minimal ChromosomeFactory handing out harness-built test-case chromosomes."""

    def __init__(self, fn):
        self._fn = fn

    def get_chromosome(self):
        return self._fn()


def minimise(case: dict, signature: str) -> dict:
    import sys

    from ..driver import default_minimise

    return default_minimise(sys.modules[__name__], case, signature, max_tests=30)
