"""C32 Non-terminating tests time out without polluting later executions (E2)."""

from __future__ import annotations

from .. import simkit
from ..execsim import E2Env, result_signature, subset_violations
from ..sched import SimDeadlock, SimOverrun
from ..simkit import Decisions, Streams

ID = "C32"
LEVEL = "exploration"
RULE = ("Each case = seeded sequence of 4-14 test cases over sut/loopy.py (instrumented infinite loop, "
        "loop in uninstrumented helper, simulated sleeps below/between/above bound and bound+grace, "
        "finite loops, branchy/raising terminating tests) executed by one real TestCaseExecutor under the "
        "adversarial baton scheduler with a seeded switch probability and line cost. Non-trivial = at least "
        "one execution timed out AND an abandoned thread was scheduled again during a later execution; "
        "distinct = distinct history digest (schedule + results).")
ASSUMPTIONS = [
    "CPU time of SUT code is modelled as traced lines x per-run line cost; blocking is modelled only via time.sleep",
    "pre-emption points are Python line events in SUT/test code and in execution.py/execution_isolation.py and "
    "tracer/fs_isolation enter/exit/check/stop (not inside C code or other pynguin internals)",
    "reference results come from the same executor class run alone with an effectively infinite timeout",
]
REAL = ["TestCaseExecutor.execute/_execute_test_case", "ExecutionTracer (thread-local state, check/stop)",
        "instrumentation of sut/loopy.py", "OutputSuppressionContext", "FilesystemIsolation (disabled by config default)",
        "real threading.Thread objects, real Queue"]
STUBS = ["thread scheduling (baton), time.time/monotonic/sleep (SimClock)", "Thread.join/is_alive (simulated)"]
MANIFEST = {
    "engine": "E2-executor",
    "technique": "deterministic simulation: real executor threads under a seeded baton scheduler with simulated "
                 "clock; seeded search over interleavings and timeouts; clean-reference oracle",
    "text": "Seeded exploration of thread interleavings (pre-emption at Python line events in SUT/test code and in the "
            "executor/tracer/isolation enter-exit paths) and simulated time for sequences of looping, sleeping and "
            "terminating tests run by the real TestCaseExecutor. Checks: timeout reported within bound+grace of "
            "simulated time not stolen by the scheduler, execute() always returns a result, and later results never "
            "contain anything their clean reference lacks. Sampling, not enumeration.",
    "note": "Trusted: baton scheduler and SimClock; CPU time modelled as traced lines x line cost; pre-emption only at "
            "Python line granularity; reference = same executor run alone with an effectively infinite timeout.",
    "ref": "DESIGN.md §3 C32",
}
BUDGET = {
    "quick": {"runs": 1800, "chunk": 30, "wall": 150, "chunk_timeout": 240},
    "thorough": {"runs": 12000, "chunk": 25, "wall": 1500, "chunk_timeout": 600},
}

_env: E2Env | None = None
_stale_exit = [0]


def setup_process():
    global _env
    _env = E2Env("loopy")
    # probe (not verdict): tracer.__exit__ executed by a thread that is not the current owner
    import threading

    from pynguin.instrumentation.tracer import ExecutionTracer

    orig_exit = ExecutionTracer.__exit__

    def probed_exit(self, *a):
        cur = self._current_thread_identifier
        if cur is not None and cur != threading.current_thread().ident:
            _stale_exit[0] += 1
        return orig_exit(self, *a)

    ExecutionTracer.__exit__ = probed_exit


# ---------------------------------------------------------------------------
# test-case descriptors
# ---------------------------------------------------------------------------
def build_tc(desc):
    from ..pyn import testcase

    m = _env.alias
    lines = []
    n = 0
    results = []
    for call in desc["calls"]:
        fn, args = call[0], call[1:]
        names = []
        for a in args:
            if isinstance(a, list) and a and a[0] == "ref":
                names.append(results[a[1]])  # the value an earlier call of this test case returned
                continue
            v = f"var_{n}"
            n += 1
            lines.append((f"{v} = {a!r}", v, type(a)))
            names.append(v)
        v = f"var_{n}"
        n += 1
        lines.append((f"{v} = {m}.{fn}({', '.join(names)})", v, None))
        results.append(v)
    return testcase(lines)


def desc_key(desc) -> str:
    return repr(desc["calls"])


def gen_desc(rng) -> dict:
    kind = rng.choice(["spin_inf", "helper_spin", "nap", "nap_work", "helper_nap", "term", "term", "term",
                       "mixed", "long_finite", "stubborn", "chained"])
    durations = [0.2, 0.7, 1.5, 2.5, 3.5, 6.0, 9.0, 30.0]
    if kind == "spin_inf":
        calls = [["spin", -1]]
        if rng.random() < 0.4:
            calls.insert(0, ["branchy", rng.randrange(0, 9), rng.randrange(0, 9)])
        return {"kind": kind, "nonterminating": True, "calls": calls}
    if kind == "helper_spin":
        return {"kind": kind, "nonterminating": True, "calls": [["helper_spin", True]]}
    if kind == "nap":
        return {"kind": kind, "calls": [["nap", rng.choice(durations)]]}
    if kind == "nap_work":
        return {"kind": kind, "calls": [["nap_then_work", rng.choice(durations), rng.randrange(0, 12)]]}
    if kind == "helper_nap":
        return {"kind": kind, "calls": [["helper_nap_then_branch", rng.choice(durations), rng.choice([7, 3, 500])]]}
    if kind == "long_finite":
        return {"kind": kind, "calls": [["long_finite", rng.choice([5, 40, 200])]]}
    if kind == "stubborn":
        # blocks past bound+grace and swallows the abort when it wakes: its statement completes long after the
        # executor gave up on it
        return {"kind": kind, "calls": [["stubborn_nap", rng.choice([0.2, 2.5, 6.0, 9.0, 30.0]), rng.randrange(0, 6)]]}
    if kind == "chained":
        # later statements read the variables bound by earlier ones (var_1 = f(var_0) style)
        return {"kind": kind, "calls": [["spin", rng.randrange(0, 6)], ["use_twice", ["ref", 0]],
                                        ["branchy", ["ref", 0], rng.randrange(0, 6)], ["classify", ["ref", 1]]]}
    term = [
        lambda: ["branchy", rng.randrange(-3, 9), rng.randrange(-3, 9)],
        lambda: ["classify", rng.choice(["", "apple", "bananas", "kiwi"])],
        lambda: ["raiser", rng.choice([-1, 0, 3, 7])],
        lambda: ["spin", rng.randrange(0, 6)],
    ]
    if kind == "term":
        return {"kind": kind, "calls": [rng.choice(term)() for _ in range(rng.randrange(1, 4))]}
    calls = [rng.choice(term)() for _ in range(rng.randrange(1, 3))]
    calls.insert(rng.randrange(len(calls) + 1), ["nap_then_work", rng.choice(durations), rng.randrange(0, 12)])
    return {"kind": "mixed", "calls": calls}


def gen_case(run_seed: int, tier: str) -> dict:
    st = Streams(run_seed)
    k = st.get("knobs")
    ops_rng = st.get("ops")
    n = ops_rng.randrange(4, 15)
    ops = [gen_desc(ops_rng) for _ in range(n)]
    if not any(o.get("nonterminating") or o["kind"] in ("nap", "nap_work", "helper_nap", "mixed") for o in ops):
        ops[ops_rng.randrange(n)] = {"kind": "spin_inf", "nonterminating": True, "calls": [["spin", -1]]}
    return {
        "run_seed": run_seed,
        "knobs": {
            "max_timeout": k.choice([1, 2, 3, 5]),
            "per_stmt": k.choice([1, 1, 2]),
            "sut_line_cost_ms": k.choice([1, 5, 20, 50]),
            "p_switch": k.choice([0.02, 0.1, 0.3]),
            "max_starve": k.choice([10, 40]),
            "p_stall": k.choice([0.0, 0.002, 0.01]),
        },
        "ops": ops,
        "sched_seed": simkit.derive_seed(run_seed, "sched"),
    }


# ---------------------------------------------------------------------------
def run_case(case: dict) -> dict:
    env = _env
    kn = case["knobs"]
    recorded = case.get("schedule")
    dec = Decisions(simkit.HRandom(case["sched_seed"]), recorded)
    refs = {}
    for d in case["ops"]:
        if not d.get("nonterminating"):
            refs[desc_key(d)] = env.reference(desc_key(d), lambda d=d: build_tc(d))
    clock, sch = env.new_sim(decisions=dec, policy="adversarial", p_switch=kn["p_switch"],
                             max_starve=kn["max_starve"], sut_line_cost_ns=kn["sut_line_cost_ms"] * 1_000_000)
    sch.p_stall = kn.get("p_stall", 0.0)
    sch.stall_ns = [int(f * kn["max_timeout"] * 1e9) for f in (0.3, 1.2, 3.0)]
    executor = env.new_executor(kn["max_timeout"], kn["per_stmt"])
    violation = None
    probes = {"timeouts": 0, "abandoned_threads": 0, "abandoned_yields": 0, "stale_tracer_exit": 0,
              "spurious_timeout": 0, "killed_at_shutdown": 0, "thread_errors": 0, "late_wakeups": 0}
    _stale_exit[0] = 0
    executed = []
    with clock:
        try:
            for i, d in enumerate(case["ops"]):
                tc = build_tc(d)
                bound = min(kn["max_timeout"], kn["per_stmt"] * tc.size())
                limit_ns = (bound + kn["max_timeout"]) * 10**9
                t0 = clock.ns
                p0 = sch.main_preempted_ns
                sch.watch_deadline = t0 + limit_ns + 120 * 10**9
                ab0 = sch.abandoned_yields
                try:
                    res = env.execute_traced(sch, executor, tc)
                except (SimOverrun, SimDeadlock) as e:
                    violation = {
                        "signature": f"a:no-return:{d['kind']}",
                        "message": f"execute() of test #{i} ({d['kind']}) did not return within bound+grace+120s "
                                   f"simulated ({type(e).__name__}: {e})",
                    }
                    break
                except Exception as e:  # noqa: BLE001
                    import traceback

                    tb = traceback.extract_tb(e.__traceback__)
                    where = next((f"{f.filename.rsplit('/', 1)[-1]}:{f.name}" for f in reversed(tb)
                                  if "/pynguin/" in f.filename), "?")
                    violation = {
                        "signature": f"a:execute-raised:{type(e).__name__}@{where}",
                        "message": f"execute() of test #{i} ({d['kind']}) raised {type(e).__name__}: {e} "
                                   f"instead of reporting a result",
                    }
                    break
                sig = result_signature(res)
                elapsed = clock.ns - t0 - (sch.main_preempted_ns - p0)
                sch.hist.add("res", i, simkit.stable_hash(sig), elapsed)
                executed.append({"i": i, "kind": d["kind"], "timeout": sig["timeout"],
                                 "elapsed_s": round(elapsed / 1e9, 3)})
                if sig["timeout"]:
                    probes["timeouts"] += 1
                if sch.abandoned_yields > ab0:
                    probes["late_wakeups"] += 1
                # (a) bounded timeout for non-terminating tests
                if d.get("nonterminating"):
                    if not sig["timeout"]:
                        violation = {"signature": f"a:no-timeout:{d['kind']}",
                                     "message": f"non-terminating test #{i} reported timeout=False"}
                        break
                    if elapsed > limit_ns + 50_000_000 + 3 * kn['sut_line_cost_ms'] * 1_000_000:
                        violation = {"signature": f"a:late-timeout:{d['kind']}",
                                     "message": f"timeout of test #{i} reported after {elapsed / 1e9:.3f}s simulated, "
                                                f"bound {bound}s + grace {kn['max_timeout']}s"}
                        break
                    if sig["lines"] or sig["exceptions"] or sig["pred_counts"]:
                        extra = subset_violations(sig, {"lines": [], "code_objects": sig["code_objects"],
                                                        "pred_true": [], "pred_false": [], "pred_counts": {},
                                                        "exceptions": {}})
                        # a timed-out result carries an empty trace in this executor; anything else is odd
                        violation = {"signature": "b:timeout-result-not-empty",
                                     "message": f"timed-out result of test #{i} carries data: {extra}"}
                        break
                else:
                    ref = refs[desc_key(d)]
                    extra = subset_violations(sig, ref)
                    if extra:
                        violation = {"signature": f"b:adds:{extra[0].split('+')[0].split('[')[0]}",
                                     "message": f"result of test #{i} ({d['kind']}) has items its clean reference "
                                                f"lacks: {extra}",
                                     "detail": {"result": sig, "reference": ref}}
                        break
                    if sig["timeout"] and not ref["timeout"]:
                        # legal when it needed more simulated time than the bound; count when it did not
                        need = sum(c[1] for c in d["calls"] if c[0] in ("nap", "nap_then_work",
                                                                       "helper_nap_then_branch", "stubborn_nap"))
                        if need < bound * 0.5 and d["kind"] not in ("long_finite", "stubborn"):
                            probes["spurious_timeout"] += 1
                probes["abandoned_threads"] += sch.mark_abandoned()
        finally:
            sch.watch_deadline = None
            probes["killed_at_shutdown"] = sch.shutdown()
    probes["abandoned_yields"] = sch.abandoned_yields
    probes["stale_tracer_exit"] = _stale_exit[0]
    probes["thread_errors"] = len(sch.thread_errors)
    ex_case = dict(case)
    ex_case["schedule"] = dec.export()
    return {
        "violation": violation,
        "digest": sch.hist.digest(),
        "nontrivial": probes["timeouts"] > 0 and probes["late_wakeups"] > 0,
        "probes": probes,
        "faults": {"timeout_fired": probes["timeouts"], "preemptions": sch.switches, "thread_stalled": sch.stalls,
                   "abandoned_thread_resumed_in_later_execution": probes["late_wakeups"]},
        "sim_ns": clock.ns,
        "sample": {"knobs": kn, "executed": executed, "switches": sch.switches,
                   "schedule_decisions": len(dec.recorded)} if case["run_seed"] % 7 == 0 else None,
        "executed_case": ex_case,
    }
