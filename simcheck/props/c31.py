"""C31 In-process and subprocess execution agree (E5: two replicas, simulated transport)."""

from __future__ import annotations

import hashlib
import os
import select
import signal
import sys

from .. import simkit
from ..execsim import E2Env
from ..sched import SimDeadlock, SimOverrun, SimThread
from ..simkit import Decisions, Streams

ID = "C31"
LEVEL = "exploration"
RULE = ("Each case = one corpus module, a pool of 3-7 test cases (produced by the real TestCaseChromosomeFactory from a "
        "seeded randomness.RNG, plus hand-built descriptors on sut/loopy.py: instrumented and uninstrumented infinite "
        "loops, simulated sleeps, raising calls at a chosen position) and a seeded list of 3-8 submissions (single "
        "execute() or batched execute_multiple() of 2-4 pool members, repeated members allowed). Every submission is given "
        "to two replicas built on the same instrumented module: the real in-process TestCaseExecutor and the real "
        "SubprocessTestCaseExecutor (on the same SubjectProperties, or on sharing_registries() as the assertion filter "
        "does) which forks a real child and ships results through the real dill/pipe transport. Both replicas and the "
        "forked child run on the simulated clock and the baton scheduler (inherited over fork); the parent's "
        "Connection.poll(timeout) is decided on SIMULATED time from the elapsed simulated time the child reports on a "
        "side channel, so timeouts (single and batch) are exactly repeatable. Phase 1 attaches RemoteAssertionTraceObserver "
        "and compares timeout flag, exception types by position, covered lines, executed code objects, predicate "
        "execution counts, true/false distances and the ordered assertion trace; phase 2 attaches the assertions of the "
        "in-process trace to clones (a seeded subset corrupted so that some fail), runs both replicas with "
        "RemoteAssertionVerificationObserver and compares failed/error index sets. Injected faults (subprocess replica "
        "only): result lost in transit (EOF on recv), transport delay beyond the batch timeout (forces the one-by-one "
        "fallback), content-keyed child crash (os._exit / SIGABRT while executing a chosen pool member: that member may "
        "be reported as timeout, every other member of the batch must still agree exactly). Non-trivial = at least one "
        "batched submission and (a fault fired or a timeout occurred or an exception position > 0 was compared); "
        "distinct = distinct history digest.")
ASSUMPTIONS = [
    "corpus functions used are deterministic and stateless across executions (stateful ones are not called)",
    "a pool member whose in-process simulated duration lies within [0.7, 1.5] x its timeout bound is counted inconclusive "
    "for the timeout flag (both outcomes are legal there), never as a violation",
    "the forked child is scheduled by the real OS, but every decision that depends on time uses the simulated clock "
    "(child elapsed time is reported on a side pipe before the result is sent), so the outcome is independent of it",
]
REAL = ["TestCaseExecutor", "SubprocessTestCaseExecutor.execute/execute_multiple/_process_subprocess_results/"
        "_fallback_on_failure/_fix_assertion_trace/_fix_result_for_pickle", "real fork (multiprocess) and real pipe + dill",
        "RemoteAssertionTraceObserver / RemoteAssertionVerificationObserver", "ExecutionTracer state transfer",
        "TestCaseChromosomeFactory / TestFactory (pool generation)"]
STUBS = ["time module (SimClock) in parent and child", "thread scheduling (baton) in parent and child",
         "Connection.poll timeout decision and Process.exitcode-before-kill (simulated from reported child time)"]
MANIFEST = {
    "engine": "E5-replicas",
    "technique": "deterministic simulation with fault injection: in-process and forked-subprocess replicas of the executor "
                 "on one simulated clock, transport timeouts decided in simulated time, injected result loss / delay / "
                 "child crash; replica-agreement oracle per submitted test case",
    "text": "Seeded exploration over pools of factory-generated and hand-built test cases x submission histories (single "
            "and batched, repeated) x transport faults; replica agreement on timeout flag, exception types/positions, "
            "lines, predicates and distances, assertion traces and verification traces; narrow relaxation for the crashed "
            "member only.",
    "note": "Trusted: SimClock/baton scheduler inherited by the forked child; side-channel time report; comparison on "
            "rendered assertions (repr).",
    "ref": "DESIGN.md §3 C31",
}
BUDGET = {
    # throughput is bound by fork + copy-on-write page faults (about 10 us per fault in this VM and not parallel):
    # ~0.5 cases/s whatever the worker count; every case makes 6-30 real forks
    "quick": {"runs": 28, "chunk": 2, "wall": 100, "chunk_timeout": 500, "selfcheck": 6},
    "thorough": {"runs": 4000, "chunk": 8, "wall": 1700, "chunk_timeout": 900, "selfcheck": 24},
}
_MODULES = ["tiny", "words", "shapes", "zoo", "plain", "floats", "loopy", "loopy", "loopy"]
_envs: dict = {}
_RUN = None  # the active _Run (inherited by forked children)


def group_key(item):
    return item % len(_MODULES) if isinstance(item, int) else -1


def setup_process():
    from .. import pyn

    pyn.import_pynguin()


# ---------------------------------------------------------------------------------------------
# environment: instrumented module + factory
# ---------------------------------------------------------------------------------------------
class _Env(E2Env):
    def __init__(self, module: str):
        super().__init__(module)
        gen = self.gen
        self.strategy = gen._instantiate_test_generation_strategy(self.executor0, self.cluster, self.constants)
        self.executor0.clear_observers()
        self.chromosome_factory = self.strategy.chromosome_factory
        import pynguin.testcase.subprocess_executor as spx

        self.spx = spx
        self.real_mp = spx.mp


def get_env(module: str) -> _Env:
    env = _envs.get(module)
    if env is None:
        # one instrumented module per process is enough for the chunk ordering used (group_key)
        for old in list(_envs.values()):
            import shutil

            shutil.rmtree(old.out_dir, ignore_errors=True)
        _envs.clear()
        env = _envs[module] = _Env(module)
    return env


# ---------------------------------------------------------------------------------------------
# simulated transport
# ---------------------------------------------------------------------------------------------
class _Link:
    def __init__(self):
        self.side_r, self.side_w = os.pipe()
        self.t0 = 0
        self.lost = False
        self.delay_ns = 0
        self.timed_out = False
        self.kind = None
        self.elapsed = None
        self.received = False
        self.blocked_in_send = False
        self.size = 0


def _side_write(link: _Link, kind: str, elapsed: int) -> None:
    try:
        os.write(link.side_w, f"{kind} {int(elapsed)}\n".encode())
    except OSError:
        pass


class _SimSend:
    def __init__(self, real, link):
        self.real, self.link = real, link

    def send(self, obj):
        run = _RUN
        from multiprocess.reduction import ForkingPickler

        buf = bytes(ForkingPickler.dumps(obj))  # what Connection.send would put on the pipe
        _side_write(self.link, f"S{len(buf)}", run.clock.ns - self.link.t0 + self.link.delay_ns)
        if self.link.lost:
            self.real.close()
            return
        self.real.send_bytes(buf)

    def close(self):
        self.real.close()
        try:
            os.close(self.link.side_w)
        except OSError:
            pass

    def __getattr__(self, name):
        return getattr(self.real, name)


class _SimRecv:
    REAL_CAP_S = 150.0

    def __init__(self, real, link):
        self.real, self.link = real, link

    def poll(self, timeout=0.0):
        run = _RUN
        link = self.link
        if link.kind is None:
            buf = b""
            t_end = simkit.real_monotonic() + self.REAL_CAP_S
            while not buf.endswith(b"\n"):
                left = t_end - simkit.real_monotonic()
                if left <= 0:
                    raise simkit.HarnessError("subprocess replica: child did not report within the real-time cap")
                r, _, _ = select.select([link.side_r], [], [], left)
                if not r:
                    continue
                chunk = os.read(link.side_r, 64)
                if not chunk:
                    break
                buf += chunk
            if buf:
                kind, el = buf.decode().split()
                if kind.startswith("S"):
                    link.size = int(kind[1:] or 0)  # size of the pickled result the child is about to write
                    kind = "S"
                link.kind, link.elapsed = kind, int(el)
            else:
                # every planned way of dying reports first; a silent death is the harness' problem (see stderr of the child)
                raise simkit.HarnessError("subprocess replica: child died without reporting its simulated time")
        limit = None if timeout is None else int(max(0.0, timeout) * 1e9)
        if limit is None or link.elapsed <= limit:
            run.clock.advance(link.elapsed)
            run.hist.add("poll", True, link.kind, link.elapsed)
            return True
        link.timed_out = True
        run.clock.advance(limit)
        run.hist.add("poll", False, link.kind, link.elapsed, limit)
        run.probes["transport_timeouts"] += 1
        return False

    def recv(self):
        try:
            return self.real.recv()
        finally:
            self.link.received = True

    def close(self):
        self.real.close()
        try:
            os.close(self.link.side_r)
        except OSError:
            pass

    def __getattr__(self, name):
        return getattr(self.real, name)


def _child_main(target, args, link):
    """Runs in the forked child: same simulated clock, a scheduler without the parent's (now non-existent) threads."""
    run = _RUN
    code = 0
    try:
        import gc

        gc.disable()  # short-lived child: a collection would touch (and thus copy) every inherited page
        # watchdog in real time (faulthandler cannot be re-armed in a forked child: its watchdog thread is gone);
        # a child killed by it dies without reporting, which the parent turns into a harness error
        signal.signal(signal.SIGALRM, signal.SIG_DFL)
        signal.alarm(120)
        run.in_child = True
        sch = run.sch
        sch.actors = [sch.main]
        sch.current = sch.main
        sch.main.state = "runnable"
        link.t0 = run.clock.ns
        try:
            os.close(link.side_r)
        except OSError:
            pass
        run.child_link = link
        target(*args)
    except BaseException:  # noqa: BLE001
        code = 1
    finally:
        _side_write(link, "X", run.clock.ns - link.t0)
        os._exit(code)


def _real_join(proc, seconds: float) -> None:
    """Wait for a real child in REAL time.  (Process.join(timeout) computes its deadline with time.monotonic, which is
    the simulated clock here and does not move while we wait - it would never time out.)"""
    t_end = simkit.real_monotonic() + seconds
    while proc.exitcode is None and simkit.real_monotonic() < t_end:
        simkit._REAL_SLEEP(0.005)  # noqa: SLF001


class _SimProcess:
    def __init__(self, target=None, args=(), kwargs=None, daemon=None, **_):
        self.target, self.args = target, args
        self.link = next(a.link for a in args if isinstance(a, _SimSend))
        self.real = None
        self.killed = False

    def start(self):
        run = _RUN
        f = run.next_fault()
        self.link.lost = f.get("lost", False)
        self.link.delay_ns = int(f.get("delay_s", 0) * 1e9)
        run.probes["forks"] += 1
        tests = self.args[6] if len(self.args) > 6 else ()
        if len(tests) == 1 and (self.link.lost or self.link.delay_ns):
            run.faulted_ids.add(id(tests[0]))
        if self.link.lost:
            run.faults["result_lost_in_transit"] += 1
        if self.link.delay_ns:
            run.faults["transport_delay"] += 1
        self.real = run.env.real_mp.Process(target=_child_main, args=(self.target, self.args, self.link), daemon=True)
        self.real.start()

    def join(self, timeout=None):
        if self.link.timed_out and not self.killed:
            return  # in simulated time the child is still busy
        if self.link.kind == "S" and not self.link.received and not self.killed:
            # the child announced its result but nobody has received it yet: it can only exit once the pipe takes the
            # whole message.  A message larger than the pipe buffer keeps it blocked in send, and a join before recv
            # then lasts its full timeout in simulated time.
            # decided from the size of the message, not from real time: a pipe takes 64 KiB
            if self.link.size <= 60000:
                _real_join(self.real, 60)
                return
            run = _RUN
            run.probes["joins_of_a_child_blocked_in_send"] += 1
            if timeout is not None:
                run.clock.advance(int(max(0.0, timeout) * 1e9))
            self.link.blocked_in_send = True
            return
        _real_join(self.real, 60)

    @property
    def exitcode(self):
        if self.link.timed_out and not self.killed:
            return None
        if getattr(self.link, "blocked_in_send", False) and not self.killed and not self.link.received:
            return None
        if self.real.exitcode is None:
            _real_join(self.real, 60)
        return self.real.exitcode

    def kill(self):
        self.killed = True
        try:
            self.real.kill()
        except Exception:  # noqa: BLE001
            pass
        _real_join(self.real, 60)

    def is_alive(self):
        return self.exitcode is None

    def __getattr__(self, name):
        return getattr(self.real, name)


class _SimMP:
    Process = _SimProcess

    def __init__(self, real_mp):
        self._real = real_mp

    def Pipe(self, duplex=False):  # noqa: N802
        r, s = self._real.Pipe(duplex=duplex)
        link = _Link()
        return _SimRecv(r, link), _SimSend(s, link)

    def __getattr__(self, name):
        return getattr(self._real, name)


# ---------------------------------------------------------------------------------------------
# case generation
# ---------------------------------------------------------------------------------------------
def _loopy_desc(rng) -> dict:
    kind = rng.choice(["spin_inf", "helper_spin", "nap", "term", "term", "raise_late", "mixed", "big", "mid_nap", "mid_nap"])
    if kind == "mid_nap":
        # one statement needs longer than the per-statement time but the test case stays within its bound
        return {"kind": kind, "calls": [["branchy", rng.randrange(0, 5), rng.randrange(0, 5)],
                                        ["nap_then_work", rng.choice([1.4, 2.4]), rng.randrange(0, 8)],
                                        ["classify", rng.choice(["", "apple", "kiwi"])], ["spin", rng.randrange(0, 4)]]}
    if kind == "big":
        # a single result larger than the pipe buffer (the child blocks in send until the parent receives)
        return {"kind": kind, "calls": [["big", rng.choice([2, 3])], ["classify", "kiwi"]]}
    if kind == "spin_inf":
        calls = [["spin", -1]]
        if rng.random() < 0.5:
            calls.insert(0, ["branchy", rng.randrange(0, 9), rng.randrange(0, 9)])
        return {"kind": kind, "nonterminating": True, "calls": calls}
    if kind == "helper_spin":
        return {"kind": kind, "nonterminating": True, "calls": [["helper_spin", True]]}
    if kind == "nap":
        return {"kind": kind, "calls": [["nap", rng.choice([0.1, 0.3, 30.0, 60.0])]]}
    term = [
        lambda: ["branchy", rng.randrange(-3, 9), rng.randrange(-3, 9)],
        lambda: ["classify", rng.choice(["", "apple", "bananas", "kiwi"])],
        lambda: ["spin", rng.randrange(0, 6)],
        lambda: ["raiser", rng.choice([3, 7, 50])],
    ]
    if kind == "raise_late":
        calls = [rng.choice(term)() for _ in range(rng.randrange(1, 4))]
        calls.append(["raiser", rng.choice([-1, 0])])
        calls.append(["branchy", 1, 2])
        return {"kind": kind, "calls": calls}
    if kind == "mixed":
        calls = [rng.choice(term)() for _ in range(rng.randrange(1, 3))]
        # naps between the per-statement time and the bound of a multi-statement test: legal for both replicas
        calls.insert(rng.randrange(len(calls) + 1), ["nap_then_work", rng.choice([0.1, 0.2, 1.2, 1.6]), rng.randrange(0, 12)])
        return {"kind": kind, "calls": calls}
    return {"kind": "term", "calls": [rng.choice(term)() for _ in range(rng.randrange(1, 4))]}


def gen_case(run_seed: int, tier: str) -> dict:
    st = Streams(run_seed)
    r, k, f = st.get("ops"), st.get("knobs"), st.get("faults")
    module = _MODULES[run_seed % len(_MODULES)]
    n_factory = r.randrange(3, 7) if module != "loopy" else r.randrange(0, 3)
    descs = [_loopy_desc(r) for _ in range(r.randrange(3, 6))] if module == "loopy" else []
    n_pool = n_factory + len(descs)
    fault_mode = f.random() < 0.5
    ops = []
    for _ in range(r.randrange(3, 9)):
        size = r.choice([1, 1, 2, 2, 3, 4])
        op = {"idx": [r.randrange(n_pool) for _ in range(size)], "api": "multiple" if size > 1 or r.random() < 0.3 else "single"}
        if fault_mode and f.random() < 0.35:
            kind = f.choice(["lost", "delay", "delay", "lost"])
            op["faults"] = [{"lost": True}] if kind == "lost" else [{"delay_s": f.choice([20, 60, 500])}]
            if f.random() < 0.3:  # the fallback executions can be hit as well
                op["faults"].append(f.choice([{"lost": True}, {"delay_s": 100}, {}]))
        ops.append(op)
    crash = {}
    if fault_mode and f.random() < 0.35:
        crash = {str(f.randrange(n_pool)): f.choice(["exit3", "exit3", "abort"])}
    return {
        "run_seed": run_seed, "module": module, "seed": r.randrange(1, 100000), "n_factory": n_factory, "descs": descs,
        "ops": ops, "crash": crash,
        "knobs": {"max_timeout": k.choice([2, 3, 5]), "per_stmt": k.choice([1, 1, 2]), "share": k.random() < 0.35,
                  "sut_line_cost_ms": k.choice([1, 5, 20]), "chromosome_length": k.choice([4, 8, 14]),
                  "corrupt_p": k.choice([0.0, 0.2, 0.5])},
        "sched_seed": simkit.derive_seed(run_seed, "sched"),
    }


# ---------------------------------------------------------------------------------------------
# running one case
# ---------------------------------------------------------------------------------------------
class _Run:
    def __init__(self, env, case, clock, sch):
        self.env, self.case, self.clock, self.sch = env, case, clock, sch
        self.hist = sch.hist
        self.in_child = False
        self.child_link = None
        self.fault_queue: list = []
        self.crash_hashes: dict = {}
        self.faulted_ids: set = set()
        self.probes = {"forks": 0, "transport_timeouts": 0, "child_died_silently": 0, "batched_submissions": 0,
                       "single_submissions": 0, "timeouts_agreed": 0, "exception_positions_gt0": 0, "inconclusive_timeout": 0,
                       "assertions_compared": 0, "verification_failed_entries": 0, "fallback_batches": 0,
                       "crashed_member_reported_timeout": 0, "tests_compared": 0,
                       "faulted_single_reported_timeout": 0, "inconclusive_in_process_starved": 0,
                       "pool_members_with_unused_bindings_removed": 0, "joins_of_a_child_blocked_in_send": 0,
                       "inconclusive_yield_cap": 0}
        self.a_starved = False
        self.faults = {"result_lost_in_transit": 0, "transport_delay": 0, "child_crash": 0, "natural_timeout": 0}

    def next_fault(self) -> dict:
        return self.fault_queue.pop(0) if self.fault_queue else {}


def _tc_hash(t) -> str:
    return hashlib.sha256(t.to_code().encode()).hexdigest()[:16]


def _install_crash_hook(ex_mod):
    """Content-keyed crash, only ever active inside a forked child of the subprocess replica."""
    orig = ex_mod.TestCaseExecutor.execute

    def execute(self_ex, test_case):
        run = _RUN
        if run is not None and run.in_child and run.crash_hashes:
            how = run.crash_hashes.get(_tc_hash(test_case))
            if how:
                link = run.child_link
                _side_write(link, "X", run.clock.ns - link.t0)
                if how == "abort":
                    signal.signal(signal.SIGABRT, signal.SIG_DFL)
                    os.kill(os.getpid(), signal.SIGABRT)
                os._exit(3)
        try:
            return orig(self_ex, test_case)
        finally:
            if run is not None and SimThread.scheduler is run.sch:
                run.sch.mark_abandoned()  # whatever is still running now was given up by the executor

    execute._c31_hook = True
    if not getattr(ex_mod.TestCaseExecutor.execute, "_c31_hook", False):
        ex_mod.TestCaseExecutor.execute = execute


def _exc_name(e) -> str:
    t = type(e)
    return f"{t.__module__}.{t.__qualname__}"


def _signature(res) -> dict:
    tr = res.execution_trace
    at = res.assertion_trace
    vt = res.assertion_verification_trace
    return {
        "timeout": bool(res.timeout),
        "exceptions": {str(p): _exc_name(e) for p, e in sorted(res.exceptions.items())},
        "lines": sorted(tr.covered_line_ids),
        "code_objects": sorted(tr.executed_code_objects),
        "pred_counts": {str(k): v for k, v in sorted(tr.executed_predicates.items())},
        "true_d": {str(k): repr(v) for k, v in sorted(tr.true_distances.items())},
        "false_d": {str(k): repr(v) for k, v in sorted(tr.false_distances.items())},
        "assertions": {str(p): [repr(a) for a in v] for p, v in sorted(at.trace.items()) if v},
        "verify_failed": {str(p): sorted(v) for p, v in sorted(vt.failed.items()) if v},
        "verify_error": {str(p): sorted(v) for p, v in sorted(vt.error.items()) if v},
    }


_FIELDS = ("timeout", "exceptions", "lines", "code_objects", "pred_counts", "true_d", "false_d", "assertions",
           "verify_failed", "verify_error")


def _build_desc_tc(env, desc):
    from ..pyn import testcase

    m = env.alias
    lines = []
    n = 0
    for call in desc["calls"]:
        fn, args = call[0], call[1:]
        names = []
        for a in args:
            v = f"var_{n}"
            n += 1
            lines.append((f"{v} = {a!r}", v, type(a)))
            names.append(v)
        v = f"var_{n}"
        n += 1
        lines.append((f"{v} = {m}.{fn}({', '.join(names)})", v, None))
    return testcase(lines)


def _corrupt(assertion, rng):
    """A clone whose expected value is wrong (so that verification has something to report)."""
    import pynguin.assertion.assertion as ass

    if isinstance(assertion, ass.FloatAssertion):
        return ass.FloatAssertion(assertion.source, assertion.value + 1.5)
    if isinstance(assertion, ass.CollectionLengthAssertion):
        return ass.CollectionLengthAssertion(assertion.source, assertion.length + 1)
    if isinstance(assertion, ass.ObjectAssertion):
        v = assertion.object
        if isinstance(v, bool):
            return ass.ObjectAssertion(assertion.source, not v)
        if isinstance(v, int):
            return ass.ObjectAssertion(assertion.source, v + 1)
        if isinstance(v, str):
            return ass.ObjectAssertion(assertion.source, v + "x")
        return ass.ObjectAssertion(assertion.source, "corrupt")
    if isinstance(assertion, ass.TypeNameAssertion):
        return ass.TypeNameAssertion(assertion.source, assertion.module, assertion.qualname + "X")
    if isinstance(assertion, ass.IsInstanceAssertion):
        return ass.IsInstanceAssertion(assertion.source, "builtins", "bytearray")
    if isinstance(assertion, ass.ExceptionAssertion):
        return ass.ExceptionAssertion("builtins", "ZeroDivisionError")
    return assertion


def run_case(case: dict) -> dict:
    global _RUN
    env = get_env(case["module"])
    kn = case["knobs"]
    import pynguin.assertion.assertiontraceobserver as ato
    import pynguin.configuration as config
    from pynguin.utils import randomness

    _install_crash_hook(env.ex)
    config.configuration.search_algorithm.chromosome_length = kn["chromosome_length"]
    dec = Decisions(simkit.HRandom(case["sched_seed"]), case.get("schedule"))
    clock, sch = env.new_sim(decisions=dec, policy="time_driven", sut_line_cost_ns=kn["sut_line_cost_ms"] * 1_000_000,
                             max_yields=12_000_000)
    run = _Run(env, case, clock, sch)
    _RUN = run
    if case.get("log_lines"):
        sch.line_log = []
        sch.log_pyn = True
    harness_rng = simkit.HRandom(simkit.derive_seed(case["run_seed"], "corrupt"))

    # ---- pool (deterministic from the case) ----------------------------------------------------
    # values collected at run time by earlier cases in this process must not steer this case's generation
    from pynguin.analyses.constants import DynamicConstantProvider

    prov = env.constants
    while prov is not None:
        if isinstance(prov, DynamicConstantProvider):
            for vals in prov._pool._constants.values():  # noqa: SLF001
                vals.clear()
        prov = getattr(prov, "_delegate", None)
    randomness.RNG.seed(case["seed"])
    pool = []
    for _ in range(case["n_factory"]):
        pool.append({"tc": env.chromosome_factory.get_chromosome().test_case, "desc": None})
    for d in case["descs"]:
        pool.append({"tc": _build_desc_tc(env, d), "desc": d})
    strip_rng = simkit.HRandom(simkit.derive_seed(case["run_seed"], "strip"))
    for entry in pool:
        if strip_rng.random() < 0.3:
            # what the exporter does before it re-executes: bindings nobody reads become bare expression statements
            entry["tc"].remove_unused_variables()
            run.probes["pool_members_with_unused_bindings_removed"] += 1
    for idx, how in case.get("crash", {}).items():
        if int(idx) < len(pool):
            run.crash_hashes[_tc_hash(pool[int(idx)]["tc"])] = how

    for entry in pool:
        if entry["desc"] is not None and entry["desc"].get("nonterminating"):
            entry["dur"] = None
            continue
        c2, s2 = env.new_sim(decisions=Decisions(None, {}), policy="time_driven",
                             sut_line_cost_ns=kn["sut_line_cost_ms"] * 1_000_000)
        ex2 = env.new_executor(10_000_000, 10_000_000)
        with c2:
            s2.watch_deadline = 400 * 10**9
            s2.max_yields = 400_000
            try:
                env.execute_traced(s2, ex2, entry["tc"].clone())
                entry["dur"] = c2.ns / 1e9
            except SimOverrun:
                entry["dur"] = None
            s2.mark_abandoned()
            s2.shutdown()

    a_ex = env.new_executor(kn["max_timeout"], kn["per_stmt"])
    props_b = env.props.sharing_registries() if kn["share"] else env.props
    b_ex = env.spx.SubprocessTestCaseExecutor(props_b, maximum_test_execution_timeout=kn["max_timeout"],
                                              test_execution_time_per_statement=kn["per_stmt"])
    violation = None
    compared = []
    saved_mp = env.spx.mp
    env.spx.mp = _SimMP(env.real_mp)

    def submit(executor, tests, api):
        SimThread.scheduler = sch
        sys.settrace(sch.tracefn)
        try:
            if api == "single" and len(tests) == 1:
                return [executor.execute(tests[0])]
            return list(executor.execute_multiple(tests))
        finally:
            sys.settrace(None)
            SimThread.scheduler = None

    def duration_of(entry) -> float | None:
        """Simulated seconds the test needs when nobody hurries it (None: does not terminate)."""
        return entry["dur"]

    def compare(phase, op_i, pos, entry, ra, rb, crashed, faulted=False):
        nonlocal violation
        sa, sb = _signature(ra), _signature(rb)
        if kn["share"]:
            # an executor on sharing_registries() has a fresh tracer without the module's import-time trace; Pynguin
            # uses it for assertion filtering only, so only what that use reads is compared
            for fld in ("lines", "code_objects", "pred_counts", "true_d", "false_d"):
                sa[fld] = sb[fld] = None
        if faulted and sb["timeout"] and not crashed:
            # the only execution of this member lost its result / exceeded the transport timeout: un-acknowledged,
            # may be reported as timeout - but then without any data
            run.probes["faulted_single_reported_timeout"] += 1
            if sb["exceptions"] or sb["lines"] or sb["assertions"] or sb["verify_failed"] or sb["verify_error"]:
                violation = {"signature": f"{phase}:timeout-result-carries-data",
                             "message": f"submission {op_i} member {pos}: reported as timeout after a transport fault, yet "
                                        f"carries data {sb}"}
            return
        run.hist.add("cmp", phase, op_i, pos, simkit.stable_hash(sa), simkit.stable_hash(sb))
        run.probes["tests_compared"] += 1
        if crashed:
            if sb["timeout"]:
                run.probes["crashed_member_reported_timeout"] += 1
                return
            # the crash is content-keyed, so a result for it can only be made up
            violation = {"signature": f"{phase}:crashed-member-has-result",
                         "message": f"submission {op_i} member {pos}: the child died while executing this test, yet the "
                                    f"subprocess replica returned a non-timeout result {sb}"}
            return
        if sa["timeout"] and not sb["timeout"] and run.a_starved:
            # threads abandoned after earlier timeouts (Python cannot kill them) took simulated CPU time from the
            # in-process replica; the forked child has no such threads.  Timing, not disagreement.
            run.probes["inconclusive_in_process_starved"] += 1
            return
        if sa["timeout"] != sb["timeout"]:
            dur = duration_of(entry)
            bound = min(kn["max_timeout"], kn["per_stmt"] * entry["tc"].size())
            if dur is not None and 0.7 * bound <= dur <= 1.5 * bound + 1:
                run.probes["inconclusive_timeout"] += 1
                return
            violation = {"signature": f"{phase}:timeout-flag-differs",
                         "message": f"submission {op_i} member {pos}: in-process timeout={sa['timeout']}, subprocess "
                                    f"timeout={sb['timeout']} (test needs {dur} simulated s, bound {bound} s)\n"
                                    f"{entry['tc'].to_code()}"}
            return
        if sa["timeout"]:
            run.probes["timeouts_agreed"] += 1
            run.faults["natural_timeout"] += 1
        if any(int(p) > 0 for p in sa["exceptions"]):
            run.probes["exception_positions_gt0"] += 1
        run.probes["assertions_compared"] += sum(len(v) for v in sa["assertions"].values())
        run.probes["verification_failed_entries"] += sum(len(v) for v in sa["verify_failed"].values())
        for fld in _FIELDS:
            if sa[fld] != sb[fld]:
                violation = {"signature": f"{phase}:{fld}-differ",
                             "message": f"submission {op_i} member {pos} ({'shared registries' if kn['share'] else 'same properties'}): "
                                        f"{fld} in-process {str(sa[fld])[:400]} vs subprocess {str(sb[fld])[:400]}\n"
                                        f"{entry['tc'].to_code()}"}
                return

    def run_phase(phase, tests_of):
        nonlocal violation
        for op_i, op in enumerate(case["ops"]):
            idxs = [i % len(pool) for i in op["idx"]]
            if not idxs:
                continue
            batch_a = [tests_of(i).clone() for i in idxs]
            batch_b = [tests_of(i).clone() for i in idxs]
            if len(idxs) > 1:
                run.probes["batched_submissions"] += 1
            else:
                run.probes["single_submissions"] += 1
            sch.watch_deadline = clock.ns + 3600 * 10**9
            state0 = randomness.RNG.getstate()
            ab0 = sch.abandoned_yields
            ra = submit(a_ex, batch_a, op["api"])
            run.a_starved = sch.abandoned_yields > ab0
            state_a = randomness.RNG.getstate()
            randomness.RNG.setstate(state0)
            run.fault_queue = [dict(x) for x in op.get("faults", [])]
            run.faulted_ids.clear()
            forks0 = run.probes["forks"]
            rb = submit(b_ex, batch_b, op["api"])
            state_b = randomness.RNG.getstate()
            if run.probes["forks"] - forks0 > 1:
                run.probes["fallback_batches"] += 1
            run.fault_queue = []
            if len(ra) != len(idxs) or len(rb) != len(idxs):
                violation = {"signature": f"{phase}:result-count",
                             "message": f"submission {op_i}: {len(idxs)} tests, in-process returned {len(ra)}, subprocess {len(rb)}"}
                return
            crashed_any = False
            for pos, i in enumerate(idxs):
                crashed = bool(run.crash_hashes) and _tc_hash(batch_b[pos]) in run.crash_hashes
                crashed_any = crashed_any or crashed
                if crashed:
                    run.faults["child_crash"] += 1
                compare(phase, op_i, pos, pool[i], ra[pos], rb[pos], crashed, faulted=id(batch_b[pos]) in run.faulted_ids)
                if violation:
                    return
            if state_a != state_b and not crashed_any and not any(id(t) in run.faulted_ids for t in batch_b):
                violation = {"signature": f"{phase}:rng-state-differs",
                             "message": f"submission {op_i}: randomness.RNG state after the subprocess replica differs from "
                                        f"the state after the in-process replica"}
                return
            sch.mark_abandoned()

    with clock:
        try:
            # ---- phase 1: assertion traces -----------------------------------------------------
            a_ex.add_remote_observer(ato.RemoteAssertionTraceObserver())
            b_ex.add_remote_observer(ato.RemoteAssertionTraceObserver())
            first_trace: dict[int, object] = {}

            def plain(i):
                return pool[i]["tc"]

            run_phase("trace", plain)
            # ---- phase 2: verification of attached assertions ------------------------------------
            if violation is None:
                a_ex.clear_remote_observers()
                b_ex.clear_remote_observers()
                a_ex.add_remote_observer(ato.RemoteAssertionTraceObserver())
                asserted = {}
                for i, entry in enumerate(pool):
                    t = entry["tc"].clone()
                    dur = duration_of(entry)
                    bound = min(kn["max_timeout"], kn["per_stmt"] * t.size())
                    if dur is None or dur > 0.6 * bound:
                        asserted[i] = t
                        continue
                    sch.watch_deadline = clock.ns + 3600 * 10**9
                    res = submit(a_ex, [t], "single")[0]
                    for pos, st_ in enumerate(t.statements()):
                        for a in res.assertion_trace.get_assertions(pos):
                            if kn["corrupt_p"] and harness_rng.random() < kn["corrupt_p"]:
                                a = _corrupt(a, harness_rng)
                            st_.assertions.append(a)
                    asserted[i] = t
                    sch.mark_abandoned()
                a_ex.clear_remote_observers()
                a_ex.add_remote_observer(ato.RemoteAssertionVerificationObserver())
                b_ex.add_remote_observer(ato.RemoteAssertionVerificationObserver())
                # the crash key follows the content of the test as submitted in this phase
                if run.crash_hashes:
                    hows = list(case.get("crash", {}).items())
                    run.crash_hashes = {_tc_hash(asserted[int(i) % len(pool)]): how for i, how in hows}
                run_phase("verify", lambda i: asserted[i])
        except (SimOverrun, SimDeadlock) as e:
            if "yield cap" in str(e):
                run.probes["inconclusive_yield_cap"] += 1  # the harness' own step budget, not a deadline of the system
            else:
                violation = violation or {"signature": "no-return",
                                          "message": f"a replica did not return: {type(e).__name__}: {e}"}
        except simkit.HarnessError:
            raise
        except Exception as e:  # noqa: BLE001
            import traceback

            tb = traceback.extract_tb(e.__traceback__)
            where = next((f"{f.filename.rsplit('/', 1)[-1]}:{f.name}" for f in reversed(tb) if "/pynguin/" in f.filename), "?")
            if where == "?":
                raise
            violation = {"signature": f"replica-raised:{type(e).__name__}@{where}",
                         "message": f"{type(e).__name__}: {e}\n{traceback.format_exc()[-1500:]}"}
        finally:
            env.spx.mp = saved_mp
            sch.watch_deadline = None
            try:
                sch.mark_abandoned()
                sch.shutdown()
            except BaseException:  # noqa: BLE001
                pass
            _RUN = None
    fired = sum(v for k, v in run.faults.items())
    nontrivial = run.probes["batched_submissions"] > 0 and (fired > 0 or run.probes["exception_positions_gt0"] > 0)
    ex_case = {k_: v for k_, v in case.items() if k_ != "return_hist"}
    return {
        "violation": violation,
        "digest": run.hist.digest(),
        "nontrivial": nontrivial,
        "probes": run.probes,
        "faults": run.faults,
        "sim_ns": clock.ns,
        "sample": {"module": case["module"], "knobs": kn, "ops": case["ops"], "crash": case.get("crash"),
                   "pool": [e["tc"].to_code() for e in pool][:3]} if case["run_seed"] % 13 == 0 else None,
        "executed_case": ex_case,
        "events": (list(run.hist.events) + [("line",) + tuple(x) for x in (sch.line_log or [])]) if case.get("return_hist") else None,
    }


def minimise(case: dict, signature: str) -> dict:
    import sys as _sys

    from ..driver import default_minimise

    return default_minimise(_sys.modules[__name__], case, signature, max_tests=24)
