"""C14 Ranking and selection operators honour their contracts (E1 monitor + RNG seam; partial)."""

from __future__ import annotations

from ..pipeline import Monitor, gen_base_case, run_pipeline
from ..simkit import Streams

ID = "C14"
LEVEL = "exploration"
RULE = ("Each case = one whole simulated DYNAMOSA or MOSA run (rank, tournament or random selection; rank bias seeded in "
        "[1.01, 2.0]) on a corpus module. The harness wraps RankBasedPreferenceSorting.compute_ranking_assignment, "
        "fast_epsilon_dominance_assignment and SelectionFunction.get_index and checks every call on the LIVE "
        "populations against a small reference: front 0 holds a minimal-fitness individual for every uncovered goal; "
        "when front 0 does not fill the population each later front is exactly the non-dominated remainder (multiset "
        "of test code); crowding distances in [0,1); selection index inside the population for every legal RNG draw; "
        "over the recorded (draw, index) pairs of one selector a larger draw never yields a better rank. Fault: the "
        "RNG draw consumed by get_index is buggified to legal boundary values (0.0, 1-2**-53, 2**-53, 0.5). Non-trivial "
        "= >= 5 ranking calls with >= 2 fronts and >= 1 buggified selection draw; distinct = distinct run digest.")
ASSUMPTIONS = [
    "only populations, goal sets and biases that simulated runs produce are checked (arbitrary fitness matrices are "
    "input generation and outside this technique)",
    "the documented shortcut 'front 0 already fills the population -> everything else is front 1' is not held against "
    "the non-dominated-remainder clause",
]
REAL = ["RankBasedPreferenceSorting", "fast_epsilon_dominance_assignment", "DominanceComparator", "RankSelection / "
        "TournamentSelection / RandomSelection", "DynaMOSA / MOSA loops that call them"]
STUBS = ["time module (SimClock)", "randomness.RNG (instrumented, buggified at get_index)", "thread scheduling"]
MANIFEST = {
    "engine": "E1-pipeline",
    "technique": "deterministic simulation of whole search runs with fault injection at the RNG seam (legal boundary "
                 "draws); every ranking/selection call on live populations compared with a reference implementation",
    "text": "Seeded exploration of search histories; operation-level refinement check of ranking, crowding distance and "
            "selection against a 40-line reference, with boundary RNG draws injected where get_index consumes them.",
    "note": "Trusted: the reference dominance/front computation in this file.",
    "ref": "DESIGN.md §3 C14",
}
BUDGET = {
    "quick": {"runs": 256, "chunk": 8, "wall": 170, "chunk_timeout": 300, "selfcheck": 16},
    "thorough": {"runs": 8000, "chunk": 16, "wall": 1700, "chunk_timeout": 600, "selfcheck": 64},
}


def gen_case(run_seed: int, tier: str) -> dict:
    st = Streams(run_seed)
    r, k, f = st.get("ops"), st.get("knobs"), st.get("faults")
    case = gen_base_case(run_seed, r, k, algorithms=["DYNAMOSA", "MOSA", "DYNAMOSA"])
    kn = case["knobs"]
    kn["iterations"] = k.choice([3, 5, 8])
    kn["assertions"] = "NONE"
    kn["population"] = k.choice([4, 6, 10, 16])
    kn["selection"] = k.choice(["RANK_SELECTION", "RANK_SELECTION", "TOURNAMENT_SELECTION", "RANDOM_SELECTION"])
    kn["rank_bias"] = round(k.choice([1.01, 1.1, 1.3, 1.5, 1.68, 1.7, 1.9, 2.0]) + k.choice([0, 0, 0.003, -0.002]), 4)
    kn["rank_bias"] = min(2.0, max(1.01, kn["rank_bias"]))
    case["buggify_p"] = f.choice([0.05, 0.2, 0.5])
    case["buggify_funcs"] = ["get_index"]
    return case


def _dominates(fa, fb) -> bool:
    return all(x <= y for x, y in zip(fa, fb)) and any(x < y for x, y in zip(fa, fb))


class RankingMonitor(Monitor):
    def __init__(self):
        self.rank_calls = 0
        self.multi_front_calls = 0
        self.sel_calls = 0
        self.pairs: dict = {}

    def on_algorithm(self, run, algo):
        import pynguin.ga.algorithms.abstractmosaalgorithm as am
        import pynguin.ga.algorithms.dynamosaalgorithm as dm
        import pynguin.ga.algorithms.mosaalgorithm as mm
        import pynguin.ga.operators.ranking as rk
        import pynguin.ga.operators.selection as sel

        mon = self
        pop_size = run.cfg.search_algorithm.population
        orig_rank = rk.RankBasedPreferenceSorting.compute_ranking_assignment

        def rank(self_r, solutions, goals):
            res = orig_rank(self_r, solutions, goals)
            mon.rank_calls += 1
            if not solutions:
                return res
            goals_l = list(goals)
            fit = {id(s): [s.get_fitness_for(g) for g in goals_l] for s in solutions}
            fronts = res.fronts or []
            if not fronts:
                run.violate("rank:no-fronts", "non-empty population ranked into no fronts")
                return res
            f0 = fronts[0]
            for gi, g in enumerate(goals_l):
                best = min(fit[id(s)][gi] for s in solutions)
                if not any(fit[id(s)][gi] == best for s in f0):
                    run.violate("rank:front0-misses-best", f"front 0 has no individual with the minimal fitness {best} "
                                                            f"for goal {g}")
            if len(f0) < pop_size:
                if len(fronts) >= 2:
                    mon.multi_front_calls += 1
                remaining = list(solutions)
                for e in f0:
                    if e in remaining:
                        remaining.remove(e)
                ranked = len(f0)
                k = 1
                while ranked < pop_size and remaining:
                    nd = [s for s in remaining if not any(_dominates(fit[id(o)], fit[id(s)]) for o in remaining if o is not s)]
                    got = fronts[k] if k < len(fronts) else None
                    if got is None:
                        run.violate("rank:missing-front", f"front {k} missing although {len(remaining)} individuals unranked")
                        break
                    if sorted(x.test_case.to_code() for x in got) != sorted(x.test_case.to_code() for x in nd):
                        run.violate("rank:front-not-nondominated-remainder",
                                    f"front {k} has {len(got)} individuals, the non-dominated remainder has {len(nd)}")
                        break
                    for e in got:
                        if e in remaining:
                            remaining.remove(e)
                    ranked += len(got)
                    k += 1
            return res

        run.patch(rk.RankBasedPreferenceSorting, "compute_ranking_assignment", rank)
        orig_feda = rk.fast_epsilon_dominance_assignment

        def feda(front, goals):
            orig_feda(front, goals)
            for t in front:
                if not (0.0 <= t.distance < 1.0):
                    run.violate("crowding-distance-range", f"distance {t.distance!r} outside [0,1)")

        for mod in (rk, am, dm, mm):
            if hasattr(mod, "fast_epsilon_dominance_assignment"):
                run.patch(mod, "fast_epsilon_dominance_assignment", feda)

        def wrap_sel(cls):
            orig = cls.get_index

            def get_index(self_s, population):
                d0 = run.last_random_draw = None
                idx = orig(self_s, population)
                mon.sel_calls += 1
                n = len(population)
                if not (isinstance(idx, int) and 0 <= idx < n):
                    run.violate(f"selection:index-out-of-range:{cls.__name__}",
                                f"{cls.__name__}.get_index returned {idx!r} for a population of {n} "
                                f"(bias={getattr(self_s, 'bias', None)}, draw={run.last_random_draw!r})")
                if cls.__name__ == "RankSelection" and run.last_random_draw is not None:
                    mon.pairs.setdefault((n, self_s.bias), []).append((run.last_random_draw, idx))
                return idx

            run.patch(cls, "get_index", get_index)

        for cls in (sel.RankSelection, sel.TournamentSelection, sel.RandomSelection):
            wrap_sel(cls)

    def after_search(self, run):
        for (n, bias), pairs in self.pairs.items():
            pairs.sort()
            for (d1, i1), (d2, i2) in zip(pairs, pairs[1:]):
                if d2 > d1 and i2 < i1:
                    run.violate("selection:not-monotone", f"bias={bias} n={n}: draw {d1} -> index {i1} but larger draw "
                                                          f"{d2} -> better index {i2}")
                    return


def run_case(case: dict) -> dict:
    mon = RankingMonitor()
    run, res = run_pipeline(case, [mon])
    res["nontrivial"] = mon.multi_front_calls >= 5 and res["probes"].get("buggified_draws", 0) >= 1
    res["probes"].update(ranking_calls=mon.rank_calls, ranking_calls_multi_front=mon.multi_front_calls,
                         selection_calls=mon.sel_calls)
    if case["run_seed"] % 11 == 0:
        res["sample"] = {"module": case["module"], "algorithm": case["algorithm"], "knobs": case["knobs"],
                         "ranking_calls": mon.rank_calls, "selection_calls": mon.sel_calls,
                         "buggified": res["probes"].get("buggified_draws")}
    res["executed_case"] = case
    return res


def minimise(case: dict, signature: str) -> dict:
    import sys

    from .c10 import _min_with

    return _min_with(sys.modules[__name__], case, signature)
