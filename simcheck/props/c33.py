"""C33 Worker crashes never hang Pynguin and restarts are bounded (E3)."""

from __future__ import annotations

import copy
import os
import pickle
import shutil
import tempfile

from .. import simkit
from ..simkit import SimClock, Streams

ID = "C33"
LEVEL = "fault_enumeration"
RULE = ("Layer 1 (protocol): the real PynguinClient.run_pynguin -> MasterProcess -> RunningTask run against an "
        "in-process fake of multiprocess.Process/Pipe whose worker follows a seeded script of 1-8 attempts: die in "
        "phase {start, import, search, assertions, export, after-send} after a scripted elapsed simulated time "
        "(1 ms .. beyond the remaining budget), or deliver OK / error / None-return-code / unpicklable results, or "
        "fail to start (OSError from Process.start); budgets maximum_search_time in {-1, 0, 1..60}; optional fault "
        "kinds: backward/forward wall-clock jump between start and crash. Layer 2 (real worker): same master code "
        "with real multiprocess fork + pipe, worker_main -> run_pynguin on a tiny module, killed by os._exit(137) "
        "at a scripted phase or at the n-th test execution / RNG draw. Non-trivial = at least one crash followed "
        "by a decision (restart or give up); distinct = distinct digest of (script, decisions).")
ASSUMPTIONS = [
    "layer 1: the fake Process/Pipe model death as EOFError from recv() and deliver results by value (no real pickling "
    "except the 'unpicklable' kind)",
    "layer 2: the OS schedules the real worker; the master's clock is simulated and advanced by the scripted elapsed "
    "time when recv() returns, so the master's decisions are deterministic",
    "a worker that hangs without dying is outside the property (it speaks of worker deaths)",
]
REAL = ["PynguinClient.run_pynguin", "MasterProcess.start_pynguin/get_result", "RunningTask._start_worker/_restart/"
        "_adjust_search_time_after_crash/get_result", "layer 2: worker_main, run_pynguin, multiprocess fork and pipe"]
STUBS = ["layer 1: multiprocess.Process and Pipe (scripted fake), worker", "both layers: time.time/monotonic (SimClock)"]
MANIFEST = {
    "engine": "E3-master-worker",
    "technique": "deterministic simulation with crash injection: real master/client code against a scripted fake "
                 "process+pipe transport on a simulated clock (layer 1) and against real forked workers killed at "
                 "scripted points (layer 2); history oracles over the recorded start/restart decisions",
    "text": "Crash-point and fault-sequence enumeration over the restart protocol: every script is one exactly "
            "repeatable sequence of worker deaths/results/clock jumps; oracles: the call returns within a bounded "
            "number of worker starts, restarts only with positive and strictly decreasing search time, none without "
            "a configured search time, OK only if a worker delivered OK.",
    "note": "Trusted: fake transport semantics (EOFError on death), SimClock; layer 2 uses monkeypatched crash "
            "triggers inherited through fork instead of a repo hook.",
    "ref": "DESIGN.md §3 C33",
}
BUDGET = {
    "quick": {"runs": 6000, "chunk": 300, "wall": 150, "chunk_timeout": 280},
    "thorough": {"runs": 200000, "chunk": 2500, "wall": 1500, "chunk_timeout": 900},
}
_L2_EVERY = {"quick": 600, "thorough": 1000}  # one layer-2 script per this many layer-1 scripts
_PHASES = ["start", "import", "search", "assertions", "export", "after-send"]
_state: dict = {}


def setup_process():
    from .. import pyn

    config, gen = pyn.import_pynguin()
    import pynguin.master_worker.client as client
    import pynguin.master_worker.master as master
    import pynguin.master_worker.worker as worker

    _state.update(config=config, gen=gen, master=master, client=client, worker=worker,
                  real_mp=master.mp, real_worker_main=master.worker_main)


def solo(item):
    """Layer-2 scripts fork real workers and take seconds: give each its own process, started first."""
    if isinstance(item, dict):
        return item.get("layer") == 2
    return any(item % v == 0 for v in set(_L2_EVERY.values()))


# ---------------------------------------------------------------------------
def gen_case(run_seed: int, tier: str) -> dict:
    st = Streams(run_seed)
    r = st.get("ops")
    f = st.get("faults")
    layer = 2 if (run_seed % _L2_EVERY[tier] == 0) else 1
    budget = r.choice([-1, 0, 1, 2, 3, 5, 10, 30, 60])
    attempts = []
    n = r.randrange(1, 9) if layer == 1 else r.randrange(1, 4)
    for i in range(n):
        kind = r.choices(["die", "ok", "error", "none_rc", "unpicklable", "start_fails"],
                         weights=[10, 3, 1, 1, 1, 0.5 if layer == 1 else 0])[0]
        if layer == 2 and kind in ("none_rc", "unpicklable", "error"):
            kind = "die"
        if layer == 2 and i == n - 1 and r.random() < 0.7:
            kind = "ok"
        elapsed_ms = r.choice([1, 10, 400, 999, 1000, 1001, 1500, 2500, 7000, 20000, 61000])
        a = {"kind": kind, "phase": r.choice(_PHASES), "elapsed_ms": elapsed_ms}
        if kind == "die":
            # how the dead worker looks to the master: killed by a signal, a non-zero status, or status 0 (os._exit(0)
            # in the module under test, an interrupted worker that returns without sending)
            a["exit_code"] = f.choice([137, 1, 0, 0, -9, -11])
        if layer == 2:
            a["nth"] = r.randrange(1, 6)
        jump = f.random()
        if jump < 0.08:
            a["clock_jump_ms"] = -f.choice([500, 3000, 90000])
        elif jump < 0.12:
            a["clock_jump_ms"] = f.choice([500, 3000, 90000])
        attempts.append(a)
    return {"run_seed": run_seed, "layer": layer, "budget": budget, "iterations": r.choice([1, 2]),
            "ops": attempts}


# ---------------------------------------------------------------------------
class _Script:
    def __init__(self, case, clock, hist):
        self.attempts = case["ops"]
        self.clock = clock
        self.hist = hist
        self.starts: list[dict] = []
        self.delivered_ok = False
        self.max_starts = 200

    def attempt(self, k):
        if k < len(self.attempts):
            return self.attempts[k]
        return {"kind": "die", "phase": "search", "elapsed_ms": 1500}  # beyond the script: keeps dying


class _Unpicklable:
    def __reduce__(self):
        raise pickle.PicklingError("cannot pickle")


def _make_fake_mp(script: _Script):
    worker = _state["worker"]
    gen = _state["gen"]

    class FakeRecv:
        def __init__(self):
            self.proc = None
            self.closed = False

        def recv(self):
            p = self.proc
            a = p.attempt
            script.clock.advance(a["elapsed_ms"] * 1_000_000)
            if "clock_jump_ms" in a:
                script.clock.wall_offset_ns += a["clock_jump_ms"] * 1_000_000
            kind = a["kind"]
            script.hist.add("recv", p.index, kind, a.get("phase"))
            if kind == "ok" or (kind == "die" and a["phase"] == "after-send"):
                script.delivered_ok = True
                return worker.WorkerResult(task_id=p.task.task_id, worker_return_code=worker.WorkerReturnCode.OK,
                                           return_code=gen.ReturnCode.OK)
            if kind == "error":
                return worker.WorkerResult(task_id=p.task.task_id, worker_return_code=worker.WorkerReturnCode.OK,
                                           return_code=None, error=worker.WorkerError("boom", "tb"))
            if kind == "none_rc":
                return worker.WorkerResult(task_id=p.task.task_id, worker_return_code=worker.WorkerReturnCode.OK,
                                           return_code=None)
            if kind == "unpicklable":
                raise pickle.UnpicklingError("garbage on the pipe")
            raise EOFError

        def close(self):
            self.closed = True

    class FakeSend:
        def close(self):
            pass

    class FakeProcess:
        def __init__(self, target=None, args=(), name=None):
            self.task = args[0]
            self.index = len(script.starts)
            self.attempt = script.attempt(self.index)
            self._alive = False

        def start(self):
            cfg = self.task.configuration
            script.starts.append({"search_time": cfg.stopping.maximum_search_time, "subprocess": cfg.subprocess,
                                  "clock_ns": script.clock.ns})
            script.hist.add("start", self.index, cfg.stopping.maximum_search_time, cfg.subprocess)
            if len(script.starts) > script.max_starts:
                raise _Unbounded
            if self.attempt["kind"] == "start_fails":
                raise OSError("fork failed")
            self._alive = True
            _pending_recv[0].proc = self

        def is_alive(self):
            return False

        @property
        def exitcode(self):
            a = self.attempt
            if a["kind"] in ("die", "unpicklable"):
                return a.get("exit_code", 137)
            return 0

        def terminate(self):
            pass

        def join(self, timeout=None):
            pass

        def kill(self):
            pass

    _pending_recv = [None]

    class FakeMp:
        Process = FakeProcess

        @staticmethod
        def Pipe(duplex=False):  # noqa: N802
            rc = FakeRecv()
            _pending_recv[0] = rc
            return rc, FakeSend()

        @staticmethod
        def current_process():
            return _state["real_mp"].current_process()

    return FakeMp


class _Unbounded(BaseException):
    pass


# ---------------------------------------------------------------------------
# layer 2: real forked worker with crash triggers
# ---------------------------------------------------------------------------
def _install_crash_trigger(attempt: dict):
    """Runs in the forked child before the real worker_main."""
    import pynguin.generator as gen
    import pynguin.testcase.execution as ex
    from pynguin.utils import randomness

    kind, phase, nth = attempt["kind"], attempt["phase"], attempt.get("nth", 1)
    if kind != "die":
        return
    die = lambda: os._exit(attempt.get("exit_code", 137) & 0xFF)  # noqa: E731
    if phase == "start":
        die()
    if phase == "import":
        orig = gen._load_sut

        def load(*a, **k):
            if nth % 2:
                die()
            r = orig(*a, **k)
            die()
            return r

        gen._load_sut = load
    elif phase == "search":
        count = [0]
        if nth % 2:
            orig_exec = ex.TestCaseExecutor.execute

            def execute(self, tc):
                count[0] += 1
                if count[0] >= nth:
                    die()
                return orig_exec(self, tc)

            ex.TestCaseExecutor.execute = execute
        else:
            rng_cls = type(randomness.RNG)
            orig_random = rng_cls.random

            def rnd(self):
                count[0] += 1
                if count[0] >= nth * 40:
                    die()
                return orig_random(self)

            rng_cls.random = rnd
    elif phase == "assertions":
        orig = gen._generate_assertions

        def ga(*a, **k):
            if nth % 2:
                die()
            count = [0]
            orig_exec = ex.TestCaseExecutor.execute

            def execute(self, tc):
                count[0] += 1
                if count[0] >= nth:
                    die()
                return orig_exec(self, tc)

            ex.TestCaseExecutor.execute = execute
            r = orig(*a, **k)
            die()
            return r

        gen._generate_assertions = ga
    elif phase == "export":
        orig = gen._export_chromosome

        def exp(*a, **k):
            if nth % 2:
                die()
            r = orig(*a, **k)
            die()
            return r

        gen._export_chromosome = exp


def _make_real_mp(script: _Script):
    real_mp = _state["real_mp"]
    real_worker_main = _state["real_worker_main"]

    class RecvWrap:
        def __init__(self, conn):
            self.conn = conn
            self.proc = None

        def recv(self):
            a = self.proc.attempt
            try:
                res = self.conn.recv()
                out = ("result", res)
            except EOFError:
                out = ("eof", None)
            script.clock.advance(a["elapsed_ms"] * 1_000_000)
            if "clock_jump_ms" in a:
                script.clock.wall_offset_ns += a["clock_jump_ms"] * 1_000_000
            self.proc.real.join(30)
            script.hist.add("recv", self.proc.index, out[0], getattr(out[1], "return_code", None) is not None)
            if out[0] == "eof":
                raise EOFError
            if out[1].return_code is not None and int(out[1].return_code) == 0:
                script.delivered_ok = True
            return out[1]

        def close(self):
            self.conn.close()

    pending = [None]

    def child_main(task, conn, attempt):
        # in the forked child: real clock again, quiet, crash trigger, then the real worker
        script.clock.uninstall()
        import logging

        logging.disable(logging.CRITICAL)
        _install_crash_trigger(attempt)
        if attempt["kind"] == "die" and attempt["phase"] == "after-send":
            orig_send = conn.send

            def send(obj):
                orig_send(obj)
                os._exit(137)

            conn.send = send
        real_worker_main(task, conn)

    class ProcWrap:
        def __init__(self, target=None, args=(), name=None):
            self.task = args[0]
            self.index = len(script.starts)
            self.attempt = script.attempt(self.index)
            self.real = real_mp.Process(target=child_main, args=(args[0], args[1], self.attempt), name=name)

        def start(self):
            cfg = self.task.configuration
            script.starts.append({"search_time": cfg.stopping.maximum_search_time, "subprocess": cfg.subprocess,
                                  "clock_ns": script.clock.ns})
            script.hist.add("start", self.index, cfg.stopping.maximum_search_time, cfg.subprocess)
            if len(script.starts) > 12:
                raise _Unbounded
            self.real.start()
            pending[0].proc = self

        def is_alive(self):
            return self.real.is_alive()

        def terminate(self):
            self.real.terminate()

        def join(self, timeout=None):
            self.real.join(timeout)

        def kill(self):
            self.real.kill()

    class RealMp:
        Process = ProcWrap

        @staticmethod
        def Pipe(duplex=False):  # noqa: N802
            r, s = real_mp.Pipe(duplex=duplex)
            w = RecvWrap(r)
            pending[0] = w
            return w, s

        @staticmethod
        def current_process():
            return real_mp.current_process()

    return RealMp


# ---------------------------------------------------------------------------
def run_case(case: dict) -> dict:
    from .. import pyn

    config, gen, master, client = _state["config"], _state["gen"], _state["master"], _state["client"]
    hist = simkit.History()
    clock = SimClock()
    script = _Script(case, clock, hist)
    out_dir = tempfile.mkdtemp(prefix="verif-c33-")
    cfg = pyn.make_config("tiny", out_dir, seed=case["run_seed"] % 1000,
                          stopping={"maximum_search_time": case["budget"], "maximum_iterations": case["iterations"]},
                          test_case_output={"assertion_generation": config.AssertionGenerator.SIMPLE},
                          search_algorithm={"population": 4, "chromosome_length": 8},
                          top={"use_master_worker": True})
    cfg_before = copy.deepcopy(cfg)
    gen.set_configuration(cfg)
    violation = None
    rc = None
    unbounded = False
    error = None
    master.mp = _make_fake_mp(script) if case["layer"] == 1 else _make_real_mp(script)
    try:
        with clock:
            try:
                c = client.PynguinClient(cfg)
                rc = c.run_pynguin()
                c.stop()
            except _Unbounded:
                unbounded = True
            except Exception as e:  # noqa: BLE001
                error = e
    finally:
        master.mp = _state["real_mp"]
        shutil.rmtree(out_dir, ignore_errors=True)
    starts = script.starts
    hist.add("rc", None if rc is None else int(rc), len(starts))
    initial = cfg_before.stopping.maximum_search_time

    def v(sig, msg):
        return {"signature": sig, "message": msg + f" | budget={initial} starts={[s['search_time'] for s in starts]} "
                                                  f"script={[(a['kind'], a['phase'], a['elapsed_ms'], a.get('clock_jump_ms')) for a in case['ops']]}"}

    jumps = any("clock_jump_ms" in a for a in case["ops"][:max(1, len(starts))])
    backward = any(a.get("clock_jump_ms", 0) < 0 for a in case["ops"][:max(1, len(starts))])
    tag = ":backward-clock-jump" if backward else ""
    if unbounded:
        violation = v("liveness:unbounded-restarts" + tag, "worker restarted more than the cap; the command would not return")
    elif error is not None:
        violation = v(f"returns:raised-{type(error).__name__}", f"run_pynguin raised {error!r}")
    else:
        for k in range(1, len(starts)):
            prev, cur = starts[k - 1]["search_time"], starts[k]["search_time"]
            if cur <= 0:
                violation = v("restart:without-remaining-search-time" + tag,
                              f"restart #{k} issued with maximum_search_time={cur}")
                break
            if not cur < prev:
                violation = v("restart:search-time-not-reduced" + tag,
                              f"restart #{k} has maximum_search_time={cur}, previous attempt had {prev}")
                break
        if violation is None and initial <= 0 and len(starts) > 1:
            violation = v("restart:without-configured-search-time", f"{len(starts)} worker starts with budget {initial}")
        if violation is None and initial > 0 and len(starts) > initial + 1:
            violation = v("liveness:more-starts-than-seconds" + tag, f"{len(starts)} starts for a {initial}s budget")
        if violation is None and rc is not None and int(rc) == 0 and not script.delivered_ok:
            violation = v("result:ok-without-delivery", "ReturnCode.OK although no worker delivered an OK result")
        if violation is None and rc is None:
            violation = v("returns:none", "run_pynguin returned None")
    crashes = sum(1 for k, s in enumerate(starts) if script.attempt(k)["kind"] in ("die", "unpicklable", "start_fails")
                  and not (script.attempt(k)["kind"] == "die" and script.attempt(k)["phase"] == "after-send"))
    faults = {}
    for k in range(len(starts)):
        a = script.attempt(k)
        name = f"L{case['layer']}:{a['kind']}" + (f"@{a['phase']}" if a["kind"] == "die" else "")
        faults[name] = faults.get(name, 0) + 1
        if "clock_jump_ms" in a:
            j = "clock_jump_backward" if a["clock_jump_ms"] < 0 else "clock_jump_forward"
            faults[j] = faults.get(j, 0) + 1
    return {
        "violation": violation,
        "digest": hist.digest(),
        "nontrivial": crashes > 0,
        "probes": {"worker_starts": len(starts), "restarts": max(0, len(starts) - 1), "layer2_runs": int(case["layer"] == 2),
                   "rc_ok": int(rc is not None and int(rc) == 0), "subprocess_forced_after_crash":
                       int(len(starts) > 1 and all(s["subprocess"] for s in starts[1:]))},
        "faults": faults,
        "sim_ns": clock.ns,
        "sample": {"layer": case["layer"], "budget": initial, "script": case["ops"][:len(starts)],
                   "starts": [s["search_time"] for s in starts], "rc": None if rc is None else int(rc)}
        if (case["run_seed"] % 401 == 0 or case["layer"] == 2) else None,
        "executed_case": case,
    }
