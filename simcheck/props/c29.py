"""C29 Filesystem isolation never modifies or deletes pre-existing paths (E4)."""

from __future__ import annotations

import io
import os
import shutil
import tempfile
from pathlib import Path

from .. import simkit
from ..simkit import Streams

ID = "C29"
LEVEL = "exploration"
RULE = ("Each case = a scratch root with a fixed pre-existing tree (3 files with content, 3 directories incl. an empty "
        "one) and a seeded sequence of 1-12 file operations issued through the APIs FilesystemIsolation patches "
        "(builtins/io/Path open in r,w,a,x,r+,w+; Path.touch/write_text/write_bytes/mkdir/unlink/rmdir/rename/replace; "
        "os.mkdir/makedirs/rename/replace/remove/unlink/rmdir/open; shutil.copy/copy2/copyfile/copytree/move/rmtree; "
        "tempfile.mkstemp/mkdtemp) on targets drawn from {pre-existing file, pre-existing dir, path created earlier, "
        "fresh name, nested fresh name}, absolute or relative to a chdir'ed cwd; every op is wrapped in try/except like "
        "a SUT would. Faults: an exception escaping the `with` after op k; a nested isolation context around a "
        "sub-sequence. After __exit__ the tree must equal the snapshot. Non-trivial = at least one op succeeded on a "
        "pre-existing target or created a nested path; distinct = distinct history digest.")
ASSUMPTIONS = [
    "the real filesystem under /dev/shm is the disk model; no I/O errors are injected into the kernel calls",
    "only APIs the isolation claims to patch are used (os.truncate, os.symlink, os.link etc. are out of scope)",
]
REAL = ["pynguin.utils.fs_isolation.FilesystemIsolation (all patches, bookkeeping, cleanup)", "real filesystem (tmpfs)"]
STUBS = []
MANIFEST = {
    "engine": "E4-stateful",
    "technique": "deterministic simulation of file-operation histories with crash (escaping exception) injection "
                 "against a snapshot reference model of the disk",
    "text": "Seeded exploration of short operation histories over a real scratch tree with pre-existing content, "
            "with an escaping exception at an arbitrary op as the crash point and nested contexts; durability-style "
            "oracle: after __exit__ the tree equals its pre-execution snapshot byte for byte and all patches are "
            "undone. Control runs with isolation off confirm the oracle sees the damage.",
    "note": "Trusted: snapshot/compare code in this file; tmpfs semantics equal those of the user's filesystem for these calls.",
    "ref": "DESIGN.md §3 C29",
}
BUDGET = {
    "quick": {"runs": 4000, "chunk": 250, "wall": 120, "chunk_timeout": 200},
    "thorough": {"runs": 150000, "chunk": 2500, "wall": 1500, "chunk_timeout": 900},
}

_PRE_FILES = {"f1.txt": b"one\n", "d1/f2.txt": b"two\ntwo\n", "d1/d2/f3.txt": b"three", "d1/data.txt": b"d1-data",
              "d1/d2/data.txt": b"d2-data"}
_REL_NAMES = ["data.txt", "out.txt", "f2.txt", "sub", "sub/x.txt"]
_CWD_DIRS = ["", "d1", "d1/d2", "empty"]
_PRE_DIRS = ["d1", "d1/d2", "empty"]
_FRESH = ["n1.txt", "d1/n2.txt", "newdir", "newdir/sub", "newdir/sub/deep", "empty/n3.txt", "d1/d2/n4", "n5"]
# names that share a prefix with another name, inside pre-existing directories (string-prefix bookkeeping hazards)
_FAMILY = ["n5", "n5x.txt", "n5.log", "n5_dir", "n5_dir/y.txt", "d1/n2.txt.bak", "d1/n2.txt"]
# pre-existing symbolic links: to a file and to a directory
_PRE_LINKS = {"lnk_f": "f1.txt", "d1/lnk_d": "d2"}
_TARGETS = list(_PRE_FILES) + _PRE_DIRS + _FRESH + list(_PRE_LINKS) + ["n5x.txt", "n5.log"]
_OPS1 = ["open_r", "open_w", "open_a", "open_x", "open_rp", "open_wp", "io_open_w", "path_open_w", "path_open_a",
         "touch", "write_text", "write_bytes", "path_mkdir", "path_mkdir_p", "path_unlink", "path_rmdir",
         "os_mkdir", "makedirs", "makedirs_ok", "os_remove", "os_unlink", "os_rmdir", "os_open_creat", "os_open_trunc",
         "os_open_append", "rmtree", "mkstemp", "mkdtemp", "open_w_kw", "chdir"]
_OPS2 = ["path_rename", "path_replace", "os_rename", "os_replace", "copy", "copy2", "copyfile", "copytree", "move",
         "copy2_nofollow", "copyfile_nofollow"]
_count = [0]
_orig = {}


def setup_process():
    from .. import pyn

    config, gen = pyn.import_pynguin()
    cfg = pyn.make_config("loopy", "/dev/shm", top={"filesystem_isolation": True})
    gen.set_configuration(cfg)
    for mod, names in ((os, ["mkdir", "makedirs", "rename", "replace", "remove", "unlink", "rmdir", "open"]),
                       (shutil, ["copyfile", "copy", "copy2", "copytree", "move", "rmtree"]),
                       (Path, ["mkdir", "touch", "write_text", "write_bytes", "unlink", "rmdir", "rename", "replace",
                               "open"]),
                       (io, ["open"])):
        for n in names:
            _orig[(mod.__name__ if hasattr(mod, "__name__") else str(mod), n)] = (mod, n, getattr(mod, n))
    import builtins

    _orig[("builtins", "open")] = (builtins, "open", builtins.open)


def gen_case(run_seed: int, tier: str) -> dict:
    st = Streams(run_seed)
    r = st.get("ops")
    n = r.choice([1, 2, 2, 3, 3, 4, 5, 6, 8, 12])
    ops = []
    hopping = r.random() < 0.3  # same relative names used from several working directories
    family = (not hopping) and r.random() < 0.2  # prefix-sharing names created, then one of them removed or moved
    for _ in range(n):
        if family:
            if r.random() < 0.7:
                ops.append({"op": r.choice(["open_w", "touch", "os_mkdir", "makedirs_ok", "write_text", "path_mkdir_p"]),
                            "a": r.choice(_FAMILY), "rel": False})
            elif r.random() < 0.5:
                ops.append({"op": r.choice(["os_remove", "os_rmdir", "path_unlink", "rmtree", "os_unlink"]),
                            "a": r.choice(_FAMILY), "rel": False})
            else:
                ops.append({"op": r.choice(["os_rename", "move", "os_replace"]), "a": r.choice(_FAMILY),
                            "b": r.choice(_FAMILY + _FRESH), "rel": False})
        elif hopping:
            if r.random() < 0.35:
                ops.append({"op": "chdir", "a": r.choice(_CWD_DIRS), "rel": False})
            else:
                ops.append({"op": r.choice(["open_w", "open_a", "write_text", "touch", "os_mkdir", "os_remove",
                                            "path_unlink", "open_x", "os_open_creat", "makedirs_ok", "rmtree"]),
                            "a": r.choice(_REL_NAMES), "rel": True})
        elif r.random() < 0.3:
            ops.append({"op": r.choice(_OPS2), "a": r.choice(_TARGETS), "b": r.choice(_TARGETS),
                        "rel": r.random() < 0.25})
        else:
            ops.append({"op": r.choice(_OPS1), "a": r.choice(_TARGETS), "rel": r.random() < 0.25})
    forms = st.get("forms")
    for op in ops:
        op["form"] = forms.choice(["str", "str", "str", "bytes", "pathlike"])
    f = st.get("faults")
    faults = []
    if f.random() < 0.3:
        faults.append({"kind": "escape", "after": f.randrange(0, n)})
    if f.random() < 0.2 and n >= 2:
        a = f.randrange(0, n - 1)
        faults.append({"kind": "nested", "from": a, "to": f.randrange(a + 1, n + 1)})
    return {"run_seed": run_seed, "ops": ops, "faults": faults, "chdir": st.get("knobs").random() < 0.5}


# ---------------------------------------------------------------------------
def _snapshot(root: str) -> dict:
    snap = {}
    for dirpath, dirnames, filenames in os.walk(root):
        rel = os.path.relpath(dirpath, root)
        if rel != ".":
            snap[rel] = ("dir", None)
        for fn in filenames:
            p = os.path.join(dirpath, fn)
            relp = os.path.relpath(p, root)
            if os.path.islink(p):
                snap[relp] = ("link", os.readlink(p))
            else:
                with _orig[("builtins", "open")][2](p, "rb") as fh:
                    snap[relp] = ("file", fh.read())
        for dn in dirnames:
            p = os.path.join(dirpath, dn)
            if os.path.islink(p):
                snap[os.path.relpath(p, root)] = ("link", os.readlink(p))
    return snap


def _build_tree(root: str) -> None:
    for d in _PRE_DIRS:
        os.makedirs(os.path.join(root, d), exist_ok=True)
    for f, data in _PRE_FILES.items():
        with open(os.path.join(root, f), "wb") as fh:
            fh.write(data)
    for link, target in _PRE_LINKS.items():
        os.symlink(target, os.path.join(root, link))


def _do(op: dict, root: str) -> list[str]:
    """Execute one op through the (patched) public APIs. Returns paths it addressed."""
    name = op["op"]
    rel = op.get("rel")
    a = op["a"] if rel else os.path.join(root, op["a"])
    b = None
    if "b" in op:
        b = op["b"] if rel else os.path.join(root, op["b"])
    touched = [op["a"]] + ([op["b"]] if "b" in op else [])
    form = op.get("form", "str")
    if form != "str" and not name.startswith("path_") and name not in ("touch", "write_text", "write_bytes"):
        # the same path handed over as bytes or as an os.PathLike object
        conv = os.fsencode if form == "bytes" else Path
        a = conv(a)
        if b is not None:
            b = conv(b)
    if name in ("open_r", "open_w", "open_a", "open_x", "open_rp", "open_wp"):
        mode = {"open_r": "r", "open_w": "w", "open_a": "a", "open_x": "x", "open_rp": "r+", "open_wp": "w+"}[name]
        with open(a, mode) as fh:
            if mode != "r":
                fh.write("X")
    elif name == "open_w_kw":
        with open(file=a, mode="w") as fh:
            fh.write("K")
    elif name == "io_open_w":
        with io.open(a, "w") as fh:  # noqa: UP020
            fh.write("I")
    elif name in ("path_open_w", "path_open_a"):
        with Path(a).open("w" if name == "path_open_w" else "a") as fh:
            fh.write("P")
    elif name == "touch":
        Path(a).touch()
    elif name == "write_text":
        Path(a).write_text("T")
    elif name == "write_bytes":
        Path(a).write_bytes(b"B")
    elif name == "path_mkdir":
        Path(a).mkdir()
    elif name == "path_mkdir_p":
        Path(a).mkdir(parents=True, exist_ok=True)
    elif name == "path_unlink":
        Path(a).unlink()
    elif name == "path_rmdir":
        Path(a).rmdir()
    elif name == "os_mkdir":
        os.mkdir(a)
    elif name == "makedirs":
        os.makedirs(a)
    elif name == "makedirs_ok":
        os.makedirs(a, exist_ok=True)
    elif name == "os_remove":
        os.remove(a)
    elif name == "os_unlink":
        os.unlink(a)
    elif name == "os_rmdir":
        os.rmdir(a)
    elif name in ("os_open_creat", "os_open_trunc", "os_open_append"):
        flags = {"os_open_creat": os.O_WRONLY | os.O_CREAT, "os_open_trunc": os.O_WRONLY | os.O_TRUNC,
                 "os_open_append": os.O_WRONLY | os.O_APPEND}[name]
        fd = os.open(a, flags)
        try:
            os.write(fd, b"O")
        finally:
            os.close(fd)
    elif name == "chdir":
        os.chdir(a)
        touched = []
    elif name == "rmtree":
        shutil.rmtree(a)
    elif name == "mkstemp":
        fd, p = tempfile.mkstemp()
        os.close(fd)
        touched = []
    elif name == "mkdtemp":
        tempfile.mkdtemp()
        touched = []
    elif name == "path_rename":
        Path(a).rename(b)
    elif name == "path_replace":
        Path(a).replace(b)
    elif name == "os_rename":
        os.rename(a, b)
    elif name == "os_replace":
        os.replace(a, b)
    elif name == "copy":
        shutil.copy(a, b)
    elif name == "copy2":
        shutil.copy2(a, b)
    elif name == "copyfile":
        shutil.copyfile(a, b)
    elif name == "copy2_nofollow":
        shutil.copy2(a, b, follow_symlinks=False)
    elif name == "copyfile_nofollow":
        shutil.copyfile(a, b, follow_symlinks=False)
    elif name == "copytree":
        shutil.copytree(a, b)
    elif name == "move":
        shutil.move(a, b)
    else:
        raise AssertionError(name)
    if "b" in op:
        touched.append(os.path.join(op["b"], os.path.basename(op["a"])))
    return touched


class _Escape(Exception):
    pass


def _execute(case: dict, root: str, isolated: bool, hist) -> tuple[list, int]:
    """Run the op list inside (nested) isolation contexts. Returns per-op log and #successful ops."""
    from pynguin.utils.fs_isolation import FilesystemIsolation
    import contextlib

    escape_after = next((f["after"] for f in case["faults"] if f["kind"] == "escape"), None)
    nested = next((f for f in case["faults"] if f["kind"] == "nested"), None)
    log = []

    def ctx():
        return FilesystemIsolation() if isolated else contextlib.nullcontext()

    def run_ops(lo, hi):
        for i in range(lo, hi):
            if nested and i == nested["from"] and lo != nested["from"]:
                with ctx():
                    run_ops(nested["from"], min(nested["to"], hi))
                run_ops(min(nested["to"], hi), hi)
                return
            op = case["ops"][i]
            try:
                touched = _do(op, root)
                log.append((i, op["op"], "ok", touched))
                hist.add(i, op["op"], "ok")
            except _Escape:
                raise
            except Exception as e:  # noqa: BLE001
                log.append((i, op["op"], type(e).__name__, []))
                hist.add(i, op["op"], type(e).__name__)
            if escape_after is not None and i == escape_after:
                raise _Escape

    cwd = os.getcwd()
    try:
        if case.get("chdir"):
            os.chdir(root)
        else:
            os.makedirs(root + "-cwd", exist_ok=True)
            os.chdir(root + "-cwd")  # relative names land in a second scratch dir that must stay empty
        try:
            with ctx():
                run_ops(0, len(case["ops"]))
        except _Escape:
            hist.add("escaped")
    finally:
        os.chdir(cwd)
    return log, sum(1 for e in log if e[2] == "ok")


def _diff(before: dict, after: dict) -> list[tuple[str, str]]:
    out = []
    for p, (kind, data) in sorted(before.items()):
        if p not in after:
            out.append(("deleted", p))
        elif after[p][0] != kind:
            out.append(("type-changed", p))
        elif after[p][1] != data:
            out.append(("modified", p))
    for p in sorted(after):
        if p not in before:
            out.append(("leftover", p))
    return out


def _blame(path: str, kind: str, log: list) -> str:
    for _i, opname, status, touched in log:
        if status != "ok":
            continue
        for t in touched:
            t = os.path.normpath(t)
            if path.startswith("<cwd>/"):
                path = path[6:]
            if t == path or (kind == "leftover" and t.startswith(path + os.sep)) or \
                    (kind in ("deleted", "modified") and path.startswith(t + os.sep)):
                return opname
    return "?"


def run_case(case: dict) -> dict:
    hist = simkit.History()
    _count[0] += 1
    from pynguin.utils import fs_isolation

    if hasattr(fs_isolation, "_normalize_path_cached") and hasattr(fs_isolation._normalize_path_cached, "cache_clear"):
        fs_isolation._normalize_path_cached.cache_clear()  # process-global cache: keep runs independent
    base = f"/dev/shm/verif-c29-{os.getpid()}-{_count[0]}"
    violation = None
    probes = {"ops_ok": 0, "ops_refused_permission": 0, "ops_on_preexisting_ok": 0, "escaped": 0, "nested": 0,
              "control_damage": 0, "nested_path_created": 0}
    try:
        # control: same history without isolation -> does the oracle see damage at all?
        root_c = base + "-ctl"
        os.makedirs(root_c)
        _build_tree(root_c)
        before_c = _snapshot(root_c)
        _execute(case, root_c, False, simkit.History())
        probes["control_damage"] = 1 if _diff(before_c, _snapshot(root_c)) else 0
        shutil.rmtree(root_c, ignore_errors=True)

        root = base
        os.makedirs(root)
        _build_tree(root)
        before = _snapshot(root)
        env_before = {k: os.environ.get(k) for k in ("TMPDIR", "TEMP", "TMP")}
        tmp_before = tempfile.tempdir
        log, n_ok = _execute(case, root, True, hist)
        after = _snapshot(root)
        if os.path.isdir(root + "-cwd"):
            for p, v in _snapshot(root + "-cwd").items():
                after["<cwd>/" + p] = v
        probes["ops_ok"] = n_ok
        probes["ops_refused_permission"] = sum(1 for e in log if e[2] == "PermissionError")
        probes["ops_on_preexisting_ok"] = sum(
            1 for e in log if e[2] == "ok" and any(os.path.normpath(t) in before for t in e[3]))
        probes["nested_path_created"] = sum(1 for e in log if e[2] == "ok" and any(t.count("/") >= 1 for t in e[3]))
        probes["escaped"] = 1 if any(f["kind"] == "escape" for f in case["faults"]) else 0
        probes["nested"] = 1 if any(f["kind"] == "nested" for f in case["faults"]) else 0
        diff = _diff(before, after)
        hist.add("diff", diff)
        if diff:
            kind, path = diff[0]
            op = _blame(path, kind, log)
            pre = "pre-existing" if path in before else "new"
            violation = {
                "signature": f"{kind}:{op}:{pre}",
                "message": f"after __exit__: {kind} {path!r} ({pre}); first op addressing it: {op}; full diff: "
                           f"{diff[:6]}; ops: {[(e[1], e[2]) for e in log]}",
            }
        else:
            import builtins

            not_restored = [f"{k[0]}.{k[1]}" for k, (mod, n, fn) in _orig.items() if getattr(mod, n) is not fn]
            if builtins.open is not _orig[("builtins", "open")][2]:
                not_restored.append("builtins.open")
            env_after = {k: os.environ.get(k) for k in ("TMPDIR", "TEMP", "TMP")}
            if not_restored:
                violation = {"signature": "patches-not-restored", "message": f"still patched after __exit__: {not_restored}"}
            elif env_after != env_before or tempfile.tempdir != tmp_before:
                violation = {"signature": "tmp-env-not-restored",
                             "message": f"TMPDIR/TEMP/TMP or tempfile.tempdir differ after __exit__: {env_after}"}
    finally:
        for suffix in ("", "-ctl", "-cwd", "-ctl-cwd"):
            shutil.rmtree(base + suffix, ignore_errors=True)
        # harness hygiene: make sure a failed __exit__ does not poison the next run
        import builtins

        for (_m, _n), (mod, n, fn) in _orig.items():
            if getattr(mod, n) is not fn:
                setattr(mod, n, fn)
    return {
        "violation": violation,
        "digest": hist.digest(),
        "nontrivial": probes["ops_on_preexisting_ok"] > 0 or probes["nested_path_created"] > 0,
        "probes": probes,
        "faults": {"exception_escapes_with_block": probes["escaped"], "nested_isolation_context": probes["nested"]},
        "sim_ns": 0,
        "sample": {"ops": case["ops"], "faults": case["faults"], "chdir": case.get("chdir")}
        if case["run_seed"] % 499 == 0 else None,
        "executed_case": case,
    }


def normalise_case(case: dict) -> dict:
    n = len(case["ops"])
    faults = []
    for f in case["faults"]:
        f = dict(f)
        if f["kind"] == "escape":
            if n == 0:
                continue
            f["after"] = min(f["after"], n - 1)
        else:
            if n < 2:
                continue
            f["from"] = min(f["from"], n - 2)
            f["to"] = max(f["from"] + 1, min(f["to"], n))
        faults.append(f)
    c = dict(case)
    c["faults"] = faults
    return c
