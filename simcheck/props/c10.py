"""C10 Fitness values, coverage values and covered verdicts agree (E1 monitor; histories half only)."""

from __future__ import annotations

import math

from ..pipeline import Monitor, gen_base_case, run_pipeline
from ..simkit import Streams

ID = "C10"
LEVEL = "exploration"
RULE = ("Each case = one whole simulated Pynguin run (DYNAMOSA, MOSA, MIO, WHOLE_SUITE, RANDOM_TEST_SUITE_SEARCH) on a "
        "corpus module with BRANCH or BRANCH+LINE metrics; faults: injected execution timeouts (empty traces) and "
        "tests ending in exceptions (truncated traces). At every iteration boundary and at the end, for every "
        "chromosome in the population, the archive and the best suite whose cache is warm and for every registered "
        "function: fitness finite and >= 0, coverage in [0,1], get_is_covered(f) <=> get_fitness_for(f) == 0, and - "
        "bypassing the cache - f.compute_is_covered(c) <=> f.compute_fitness(c) == 0 (two independent "
        "implementations); suite branch fitness == 0 <=> suite branch coverage == 1. Non-trivial = at least 20 "
        "(chromosome, function) pairs with a covered verdict True and 20 with False were compared; distinct = distinct "
        "run digest.")
ASSUMPTIONS = [
    "only traces that real runs produce are checked; arbitrary synthetic traces/registries are input generation for "
    "pure functions and outside this technique (stated in DESIGN.md)",
]
REAL = ["generator.run_pynguin end to end", "fitness_metrics, computations, coveragegoals, ComputationCache"]
STUBS = ["time module (SimClock)", "randomness.RNG object (instrumented)", "thread scheduling (time-driven baton)"]
MANIFEST = {
    "engine": "E1-pipeline",
    "technique": "deterministic simulation of whole search runs with injected timeouts; cross-function consistency "
                 "invariants checked on every live chromosome at every iteration boundary",
    "text": "Seeded exploration of search histories; at each boundary the cached and the uncached (recomputed) verdicts "
            "of every registered fitness/coverage function are cross-checked on every live chromosome. Covers the "
            "'real suites from search runs' half of the property; the arbitrary-trace half is not claimed.",
    "note": "Trusted: monitor reads caches only of chromosomes that are not marked changed, so it triggers no executions.",
    "ref": "DESIGN.md §3 C10",
}
BUDGET = {
    "quick": {"runs": 256, "chunk": 8, "wall": 170, "chunk_timeout": 300, "selfcheck": 16},
    "thorough": {"runs": 8000, "chunk": 16, "wall": 1700, "chunk_timeout": 600, "selfcheck": 64},
}
_ALGOS = ["DYNAMOSA", "MOSA", "MIO", "WHOLE_SUITE", "RANDOM_TEST_SUITE_SEARCH"]


def gen_case(run_seed: int, tier: str) -> dict:
    st = Streams(run_seed)
    r, k, f = st.get("ops"), st.get("knobs"), st.get("faults")
    case = gen_base_case(run_seed, r, k, algorithms=_ALGOS)
    kn = case["knobs"]
    kn["iterations"] = k.choice([2, 4, 6])
    kn["assertions"] = "NONE"
    if case["algorithm"] != "DYNAMOSA":
        kn["metrics"] = k.choice([["BRANCH"], ["BRANCH", "LINE"], ["LINE"]])
    if case["algorithm"] == "WHOLE_SUITE" and k.random() < 0.6:
        # with an archive the suite fitness function is restricted to the still uncovered branches as the run goes
        # (the whole-suite archive supports branch goals only - it asserts on anything else)
        kn["use_archive"] = True
        kn["metrics"] = ["BRANCH"]
    case["timeout_p"] = f.choice([0.0, 0.05, 0.2])
    return case


class ConsistencyMonitor(Monitor):
    def __init__(self):
        self.pairs_true = 0
        self.pairs_false = 0
        self.suites = 0
        self.edit_probes = 0
        self.restricted_suites = 0

    def on_algorithm(self, run, algo):
        self.algo = algo

    def _chromosomes(self, run, best):
        seen = []
        pop = getattr(self.algo, "_population", None)
        if isinstance(pop, list):
            seen.extend(pop)
        arch = getattr(self.algo, "_archive", None)
        if arch is not None:
            try:
                seen.extend(arch.solutions)
            except AssertionError:
                run.violate("archive-solutions-assert", "archive.solutions asserted: a covered target has fitness != 0")
        if best is not None:
            seen.append(best)
            seen.extend(best.test_case_chromosomes)
        out, ids = [], set()
        for c in seen:
            if id(c) not in ids:
                ids.add(id(c))
                out.append(c)
        return out

    def _check(self, run, best):
        import pynguin.ga.computations as ff
        import pynguin.ga.testsuitechromosome as tsc

        for c in self._chromosomes(run, best):
            is_suite = isinstance(c, tsc.TestSuiteChromosome)
            if c.changed:
                continue
            if is_suite and any(t.changed or t.get_last_execution_result() is None for t in c.test_case_chromosomes):
                continue
            if not is_suite and c.get_last_execution_result() is None:
                continue
            kind = "suite" if is_suite else "testcase"
            fit_by_type = {}
            for f in c.get_fitness_functions():
                fit = c.get_fitness_for(f)
                cov = c.get_is_covered(f)
                if not (isinstance(fit, (int, float)) and math.isfinite(fit) and fit >= 0):
                    run.violate(f"fitness-range:{kind}", f"{type(f).__name__}: fitness {fit!r}")
                if cov != (fit == 0.0):
                    run.violate(f"cached-verdict-disagrees:{kind}:{type(f).__name__}",
                                f"{f}: get_is_covered={cov} but get_fitness_for={fit!r}")
                raw_fit = f.compute_fitness(c)
                raw_cov = f.compute_is_covered(c)
                if raw_cov != (raw_fit == 0.0):
                    run.violate(f"computed-verdict-disagrees:{kind}:{type(f).__name__}",
                                f"{f}: compute_is_covered={raw_cov} but compute_fitness={raw_fit!r}")
                if not math.isclose(raw_fit, fit, rel_tol=1e-12, abs_tol=1e-12):
                    run.violate(f"cached-fitness-differs:{kind}:{type(f).__name__}",
                                f"{f}: cached {fit!r}, recomputed on the same results {raw_fit!r}")
                if cov:
                    self.pairs_true += 1
                else:
                    self.pairs_false += 1
                fit_by_type[type(f).__name__] = fit
            cov_by_type = {}
            for cf in c.get_coverage_functions():
                v = c.get_coverage_for(cf)
                if not (isinstance(v, (int, float)) and 0.0 <= v <= 1.0):
                    run.violate(f"coverage-range:{kind}", f"{type(cf).__name__}: coverage {v!r}")
                cov_by_type[type(cf).__name__] = v
            if is_suite:
                self.suites += 1
                bf = fit_by_type.get("BranchDistanceTestSuiteFitnessFunction")
                bc = cov_by_type.get("TestSuiteBranchCoverageFunction")
                restricted = any(getattr(f, "_excluded_code_objects", None) or getattr(f, "_excluded_true_predicates", None)
                                 or getattr(f, "_excluded_false_predicates", None) for f in c.get_fitness_functions())
                if restricted:
                    # a restricted function ignores the branches the archive already holds: zero then means "the rest
                    # is covered", not "everything is covered" - only the fitness/verdict agreement above applies
                    self.restricted_suites += 1
                    bf = None
                if bf is not None and bc is not None and (bf == 0.0) != (bc == 1.0):
                    run.violate("suite-branch-fitness-vs-coverage",
                                f"suite branch fitness {bf!r} but branch coverage {bc!r}")
                lf = fit_by_type.get("LineTestSuiteFitnessFunction")
                lc = cov_by_type.get("TestSuiteLineCoverageFunction")
                if lf is not None and lc is not None and (lf == 0.0) != (lc == 1.0):
                    run.violate("suite-line-fitness-vs-coverage", f"suite line fitness {lf!r} but line coverage {lc!r}")

    def _edit_then_verdict_first(self, run, best):
        """The order the archive uses: a freshly varied chromosome is asked for its covered verdict BEFORE anybody
        asked for its fitness.  Two clones per boundary; the run's RNG state is put back afterwards."""
        import pynguin.ga.testcasechromosome as tcc
        from pynguin.utils import randomness

        cands = [c for c in self._chromosomes(run, best) if isinstance(c, tcc.TestCaseChromosome)
                 and not c.changed and c.get_last_execution_result() is not None and c.get_fitness_functions()]
        state = randomness.RNG.getstate()
        try:
            for c in cands[:2]:
                ffs = c.get_fitness_functions()
                for f in ffs:
                    c.get_fitness_for(f)  # warm cache on the parent
                clone = c.clone()
                clone.mutate()
                if not clone.changed:
                    continue
                self.edit_probes += 1
                f = ffs[self.edit_probes % len(ffs)]
                cov = clone.get_is_covered(f)
                fit = clone.get_fitness_for(f)
                if cov != (fit == 0.0):
                    run.violate(f"verdict-before-fitness-disagrees:{type(f).__name__}",
                                f"{f}: after clone+mutate, get_is_covered (asked first) = {cov}, get_fitness_for = {fit!r}"
                                f"\nparent:\n{c.test_case.to_code()}\nclone:\n{clone.test_case.to_code()}")
                    return
        finally:
            randomness.RNG.setstate(state)

    def before_first_iteration(self, run, initial):
        self._check(run, initial)

    def after_iteration(self, run, best):
        self._check(run, best)
        if run.violation is None:
            self._edit_then_verdict_first(run, best)

    def before_assertions(self, run, suite):
        self._check(run, suite)


def run_case(case: dict) -> dict:
    mon = ConsistencyMonitor()
    run, res = run_pipeline(case, [mon])
    res["nontrivial"] = mon.pairs_true >= 20 and mon.pairs_false >= 20
    res["probes"].update(pairs_covered=mon.pairs_true, pairs_uncovered=mon.pairs_false, suites_checked=mon.suites,
                         clone_mutate_verdict_first_probes=mon.edit_probes,
                         suites_with_restricted_fitness_function=mon.restricted_suites)
    if case["run_seed"] % 11 == 0:
        res["sample"] = {"module": case["module"], "algorithm": case["algorithm"], "knobs": case["knobs"],
                         "timeout_p": case["timeout_p"], "pairs": [mon.pairs_true, mon.pairs_false]}
    res["executed_case"] = case
    return res


def minimise(case: dict, signature: str) -> dict:
    from .c13 import _min

    import sys

    return _min_with(sys.modules[__name__], case, signature)


def _min_with(mod, case, signature):
    best = dict(case)

    def fails(c):
        try:
            r = mod.run_case(c)
        except BaseException:  # noqa: BLE001
            return False
        return bool(r.get("violation")) and r["violation"]["signature"] == signature

    for key, vals in (("iterations", [1, 2]), ("population", [4]), ("chromosome_length", [6])):
        for v in vals:
            if best["knobs"].get(key, 0) > v:
                c = dict(best, knobs=dict(best["knobs"], **{key: v}))
                if fails(c):
                    best = c
                    break
    for key in ("timeout_p", "buggify_p"):
        if best.get(key):
            c = dict(best, **{key: 0.0})
            if fails(c):
                best = c
    return best
