"""C17 Search stops as soon as a configured budget is exhausted (E1 monitor)."""

from __future__ import annotations

from .. import simkit
from ..pipeline import Monitor, gen_base_case, run_pipeline
from ..simkit import Streams

ID = "C17"
LEVEL = "exploration"
RULE = ("Each case = one whole simulated Pynguin run (real generator.run_pynguin: analysis, instrumentation, search, "
        "assertion generation, minimisation, export) on one of 5 corpus modules with algorithm in {DYNAMOSA, MOSA, MIO, "
        "WHOLE_SUITE, RANDOM, RANDOM_TEST_SUITE_SEARCH, RANDOM_TEST_CASE_SEARCH} and a seeded combination of budgets "
        "(iterations 1-10, test executions 1-200, statement executions 1-500, simulated search time 1-20 s) on the "
        "simulated clock; faults: content-keyed injected execution timeouts, buggified RNG draws. A reference model "
        "of the three counters and the clock is kept by the harness (own observers) and compared at every "
        "resources_left() call and iteration boundary. Non-trivial = a configured budget was actually reached before "
        "the search ended; distinct = distinct run digest.")
ASSUMPTIONS = [
    "simulated time advances per RNG draw, per traced SUT line and per clock read; wall time plays no role",
    "the reference counters are maintained by wrappers around TestCaseExecutor.execute/_before_statement_execution",
]
REAL = ["generator.run_pynguin end to end", "all search algorithms and stopping conditions", "TestCaseExecutor threads"]
STUBS = ["time module (SimClock)", "randomness.RNG object (same algorithm, instrumented)", "thread scheduling (time-driven baton)",
         "MaxMemory stopping condition disabled"]
MANIFEST = {
    "engine": "E1-pipeline",
    "technique": "deterministic simulation of whole generator runs on a simulated clock with injected execution "
                 "timeouts; reference-model counters checked at every resources_left() call and iteration boundary",
    "text": "Seeded exploration over algorithms x budget combinations x faults of complete runs; history oracle: the "
            "number of completed iterations never exceeds the budget, resources_left() never answers True once the "
            "reference counters reached a limit, is_fulfilled() of the counting conditions agrees with the reference, "
            "and no test is executed between the boundary at which a budget was exhausted and the end of the search.",
    "note": "Trusted: harness counters and SimClock; iteration boundary = SearchObserver.after_search_iteration.",
    "ref": "DESIGN.md §3 C17",
}
BUDGET = {
    "quick": {"runs": 320, "chunk": 8, "wall": 170, "chunk_timeout": 240, "selfcheck": 16},
    "thorough": {"runs": 12000, "chunk": 16, "wall": 1700, "chunk_timeout": 400, "selfcheck": 64},
}
_ALGOS = ["DYNAMOSA", "MOSA", "MIO", "WHOLE_SUITE", "RANDOM", "RANDOM_TEST_SUITE_SEARCH", "RANDOM_TEST_CASE_SEARCH"]


# No setup_parent on purpose: children forked from a parent that has pynguin loaded pay ~4 s of
# copy-on-write page faults per run in this VM; a slim parent + import in the child costs ~1 s.


def gen_case(run_seed: int, tier: str) -> dict:
    st = Streams(run_seed)
    r, k, f = st.get("ops"), st.get("knobs"), st.get("faults")
    case = gen_base_case(run_seed, r, k, algorithms=_ALGOS)
    kn = case["knobs"]
    kinds = k.sample(["iterations", "executions", "statements", "time"], k.choice([1, 1, 2, 3]))
    kn["iterations"] = k.randrange(1, 11) if "iterations" in kinds else 40
    if "executions" in kinds:
        kn["max_executions"] = k.choice([1, 2, 5, 17, 40, 90, 200])
    if "statements" in kinds:
        kn["max_statements"] = k.choice([1, 10, 60, 150, 500])
    if "time" in kinds:
        kn["search_time"] = k.choice([1, 2, 5, 20])
    kn["assertions"] = k.choice(["NONE", "SIMPLE"])
    kn["use_archive"] = k.random() < 0.3
    case["timeout_p"] = f.choice([0.0, 0.0, 0.05, 0.2])
    case["buggify_p"] = f.choice([0.0, 0.0, 0.01])
    case["draw_cost_ns"] = k.choice([100_000, 1_000_000, 5_000_000])
    return case


class BudgetMonitor(Monitor):
    def __init__(self):
        self.stmts = 0
        self.exhausted = None
        self.rl_calls = 0
        self.rl_true_since_boundary = 0
        self.start_ns = None
        self.search_over = False
        self.reached = set()

    def on_algorithm(self, run, algo):
        import pynguin.ga.stoppingcondition as sc
        import pynguin.testcase.execution as ex

        mon = self
        orig_bse = ex.TestCaseExecutor._before_statement_execution

        def bse(self_ex, statement, namespace):
            if self_ex is run.executor:
                mon.stmts += 1
            return orig_bse(self_ex, statement, namespace)

        run.patch(ex.TestCaseExecutor, "_before_statement_execution", bse)
        self.exec0 = run.executions  # executions before the search starts do not count
        self.conds = {type(c).__name__: c for c in algo.stopping_conditions}
        self.sc = sc
        orig_rl = algo.resources_left

        def rl():
            val = orig_rl()
            if mon.search_over:
                return val
            mon.rl_calls += 1
            ref = mon.reference(run)
            run.hist.add("rl", val, tuple(sorted(ref["reached"])))
            if val and ref["reached"]:
                run.violate("rl-true-after-budget:" + sorted(ref["reached"])[0],
                            f"resources_left() returned True although the reference model says "
                            f"{sorted(ref['reached'])} reached: {ref}")
            for name, fulfilled in ref["expect_fulfilled"].items():
                c = mon.conds.get(name)
                if c is not None and bool(c.is_fulfilled()) != fulfilled:
                    run.violate(f"is_fulfilled-disagrees:{name}",
                                f"{name}.is_fulfilled()={c.is_fulfilled()} (current_value={c.current_value()}, "
                                f"limit={c.limit()}) but reference says {fulfilled}: {ref}")
            if val:
                mon.rl_true_since_boundary += 1
            return val

        algo.resources_left = rl
        # the search start time as the algorithm sees it
        orig_bss = algo.before_search_start

        def bss():
            mon.start_ns = run.clock.ns
            mon.exec_at_start = run.executions
            mon.stmts_at_start = mon.stmts
            return orig_bss()

        algo.before_search_start = bss

    def reference(self, run) -> dict:
        kn = run.case["knobs"]
        reached = set()
        expect = {}
        ex_n = run.executions - getattr(self, "exec_at_start", run.executions)
        st_n = self.stmts - getattr(self, "stmts_at_start", self.stmts)
        if kn.get("iterations", -1) > 0:
            f = run.iterations >= kn["iterations"]
            expect["MaxIterationsStoppingCondition"] = f
            if f:
                reached.add("iterations")
        if kn.get("max_executions", -1) > 0:
            f = ex_n >= kn["max_executions"]
            expect["MaxTestExecutionsStoppingCondition"] = f
            if f:
                reached.add("executions")
        if kn.get("max_statements", -1) > 0:
            f = st_n >= kn["max_statements"]
            expect["MaxStatementExecutionsStoppingCondition"] = f
            if f:
                reached.add("statements")
        if kn.get("search_time", -1) > 0 and self.start_ns is not None:
            # strictly-greater comparison in the implementation; allow one clock-read tick of slack
            if (run.clock.ns - self.start_ns) / 1e9 > kn["search_time"] + 0.001:
                reached.add("time")
        return {"reached": reached, "expect_fulfilled": expect, "iterations": run.iterations, "executions": ex_n,
                "statements": st_n, "elapsed_s": None if self.start_ns is None else (run.clock.ns - self.start_ns) / 1e9}

    def after_iteration(self, run, best):
        kn = run.case["knobs"]
        if kn.get("iterations", -1) > 0 and run.iterations > kn["iterations"]:
            run.violate("iterations-exceed-budget", f"{run.iterations} iterations completed, budget {kn['iterations']}")
        if self.rl_true_since_boundary == 0:
            run.violate("iteration-without-resources-check",
                        f"iteration {run.iterations} completed without a resources_left() call returning True since "
                        f"the previous boundary")
        self.rl_true_since_boundary = 0
        ref = self.reference(run)
        self.reached |= ref["reached"]
        if ref["reached"] and self.exhausted is None:
            self.exhausted = {"iteration": run.iterations, "executions": run.executions, "reached": sorted(ref["reached"])}
            run.probe("budget_reached_at_boundary")

    def after_search(self, run):
        self.search_over = True
        if self.exhausted is not None and run.executions > self.exhausted["executions"]:
            run.violate("work-after-budget:" + self.exhausted["reached"][0],
                        f"{run.executions - self.exhausted['executions']} test executions happened after the iteration "
                        f"boundary #{self.exhausted['iteration']} at which {self.exhausted['reached']} was exhausted")


def run_case(case: dict) -> dict:
    mon = BudgetMonitor()
    run, res = run_pipeline(case, [mon])
    res["nontrivial"] = bool(mon.reached) or mon.exhausted is not None
    res["probes"]["resources_left_calls"] = mon.rl_calls
    for b in mon.reached:
        res["probes"]["reached_" + b] = 1
    if case["run_seed"] % 13 == 0:
        res["sample"] = {"module": case["module"], "algorithm": case["algorithm"], "knobs": case["knobs"],
                         "timeout_p": case["timeout_p"], "iterations": res["iterations"],
                         "executions": res["executions"], "budgets_reached": sorted(mon.reached), "rc": res["rc"]}
    res["executed_case"] = case
    return res


def minimise(case: dict, signature: str) -> dict:
    """Whole-pipeline runs are minimised over budgets and sizes instead of ops."""
    best = dict(case)

    def fails(c):
        try:
            r = run_case(c)
        except BaseException:  # noqa: BLE001
            return False
        return bool(r.get("violation")) and r["violation"]["signature"] == signature

    for key, vals in (("population", [4]), ("chromosome_length", [6]), ("iterations", [1, 2, 3])):
        for v in vals:
            if best["knobs"].get(key, 0) > v:
                c = dict(best, knobs=dict(best["knobs"], **{key: v}))
                if fails(c):
                    best = c
                    break
    for key in ("timeout_p", "buggify_p"):
        if best.get(key):
            c = dict(best, **{key: 0.0})
            if fails(c):
                best = c
    return best
