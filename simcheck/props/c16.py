"""C16 The same seed and budget reproduce the same test suite (E1, fresh interpreters)."""

from __future__ import annotations

import json
import os
import subprocess
import sys
import tempfile
from concurrent.futures import ThreadPoolExecutor

from .. import simkit
from ..pipeline import gen_base_case
from ..simkit import Streams

ID = "C16"
LEVEL = "exploration"
RULE = ("Each case = one configuration (corpus module, algorithm in {DYNAMOSA, MOSA, MIO, WHOLE_SUITE, RANDOM}, seed, "
        "population/length/iteration knobs, type tracing on/off, local search on/off, assertion mode) run as a whole "
        "simulated Pynguin pipeline in THREE fresh interpreters with PYTHONHASHSEED = a, b, a (a != b, both seeded), "
        "SimClock and the time-driven scheduler (so neither wall time nor thread timing can differ). Oracle: exported "
        "test file bytes, the digest of every RNG draw, and the per-iteration event digest are identical. On a "
        "mismatch both runs are repeated with full draw logs and the first divergent draw with its call sites is "
        "reported. When the three agree, a FOURTH replica runs the configuration on a machine that is 10-60x slower "
        "(every simulated cost scaled: RNG draw, execution, traced line); with iteration budgets the result must be "
        "the same, unless a wall-time budget legitimately bound in either run (a test hit its execution timeout, a "
        "local-search phase used up its own time budget, both detected by probes): then the configuration is "
        "inconclusive. Modules: the six general corpus modules and gallery (custom exception classes, enums, "
        "__all__); no_xfail on/off; MIO with up to 40 iterations. Non-trivial = the run drew > 200 random numbers and "
        "exported a non-empty file; distinct = distinct (configuration, draw digest).")
ASSUMPTIONS = [
    "iteration-bounded budgets only (the property is stated for iteration/execution budgets)",
    "address-space layout (ASLR) is left on; only the string hash seed is varied explicitly",
]
REAL = ["generator.run_pynguin end to end in fresh interpreters", "module analysis, test cluster, all operators, export"]
STUBS = ["time module (SimClock)", "randomness.RNG object (same algorithm, records draws)", "thread scheduling"]
MANIFEST = {
    "engine": "E1-pipeline",
    "technique": "deterministic simulation replicas: the same seeded run executed in fresh interpreters under different "
                 "PYTHONHASHSEED and on a simulated machine of another speed, clock and scheduling simulated; replica "
                 "agreement on output bytes and RNG draw history; first divergent draw localised as the minimised trace",
    "text": "Seeded exploration over configurations; each configuration is executed by three replicas that may differ "
            "only in string-hash randomisation; any disagreement in exported bytes or in the recorded RNG history is "
            "a violation, reported with the first divergent draw and both call stacks.",
    "note": "Trusted: SimRandom draw recording (frame names), SimClock; replicas are OS processes started by the check.",
    "ref": "DESIGN.md §3 C16",
}
BUDGET = {
    "quick": {"runs": 20, "wall": 170},
    "thorough": {"runs": 900, "wall": 1700},
}
_ALGOS = ["DYNAMOSA", "DYNAMOSA", "MOSA", "MIO", "WHOLE_SUITE", "RANDOM"]
_MODULES = ["tiny", "words", "shapes", "floats", "zoo", "plain", "gallery", "gallery", "shop.core", "shop.core"]
_RUNNER = str(simkit.VERIF / "simcheck" / "e1_runner.py")


def gen_case(run_seed: int, tier: str) -> dict:
    st = Streams(run_seed)
    r, k = st.get("ops"), st.get("knobs")
    case = gen_base_case(run_seed, r, k, algorithms=_ALGOS, modules=_MODULES)
    kn = case["knobs"]
    kn["iterations"] = k.choice([3, 5, 8])
    kn["assertions"] = k.choice(["NONE", "SIMPLE", "MUTATION_ANALYSIS"])
    kn["type_tracing"] = k.choice([0.0, 0.0, 1.0])
    kn["local_search"] = k.random() < 0.3
    kn["max_mutants"] = 12
    case["hashseeds"] = [k.randrange(1, 4000), k.randrange(4001, 9000)]
    kn["no_xfail"] = k.random() < 0.4
    if kn["local_search"]:
        kn["local_search_time_ms"] = k.choice([300, 5000, 5000])
    if case["algorithm"] == "MIO":
        kn["iterations"] = k.choice([8, 20, 40])
    case["slow_factor"] = k.choice([10, 25, 60])
    return case


def _run_replica(case: dict, hashseed: int, log_draws: bool = False, **override) -> dict:
    c = dict(case, log_draws=log_draws, **override)
    with tempfile.NamedTemporaryFile("w", suffix=".json", delete=False) as f:
        json.dump(c, f)
        path = f.name
    env = dict(os.environ, PYTHONHASHSEED=str(hashseed))
    try:
        p = subprocess.run([sys.executable, "-u", _RUNNER, path], env=env, capture_output=True, text=True,
                           timeout=float(os.environ.get("VERIF_REPLICA_TIMEOUT", "600")), check=False)
    except subprocess.TimeoutExpired:
        return {"error": "replica timed out (hang?) for case " + json.dumps(case)}
    finally:
        os.unlink(path)
    line = next((ln for ln in p.stdout.splitlines() if ln.startswith("RESULT ")), None)
    if line is None:
        return {"error": (p.stdout + p.stderr)[-3000:]}
    return json.loads(line[7:])


def _check_config(case: dict) -> dict:
    a, b = case["hashseeds"]
    reps = [_run_replica(case, hs) for hs in (a, b, a)]
    if any("error" in r for r in reps):
        return {"status": "error", "error": next(r["error"] for r in reps if "error" in r), "run_seed": case["run_seed"]}
    keys = ("test_file_sha", "draw_digest", "rc")
    out = {"status": "ok", "run_seed": case["run_seed"], "draws": reps[0]["draws"], "draw_digest": reps[0]["draw_digest"],
           "nontrivial": reps[0]["draws"] > 200 and reps[0]["test_file_len"] > 0, "sim_ns": sum(r["sim_ns"] for r in reps),
           "sample": {"module": case["module"], "algorithm": case["algorithm"], "seed": case["seed"],
                      "knobs": case["knobs"], "hashseeds": [a, b, a], "draws": reps[0]["draws"],
                      "test_file_sha": reps[0]["test_file_sha"]}}
    same_seed_differs = any(reps[0][k] != reps[2][k] for k in keys)
    cross_differs = any(reps[0][k] != reps[1][k] for k in keys)
    if reps[0]["digest"] != reps[1]["digest"]:
        out["sut_hash_dependent"] = True  # e.g. the SUT iterates over a set literal passed by a test
    speed_differs = False
    listing_differs = False
    slow = None
    if not (same_seed_differs or cross_differs) and case.get("slow_factor") and not os.environ.get("VERIF_C16_NO_SLOW"):
        # fourth replica: the same interpreter settings on a machine that is slow_factor times slower (every
        # simulated cost scaled).  With iteration budgets only, the speed of the machine must not matter - unless a
        # wall-time budget legitimately bound (a test hit its execution timeout, a local-search phase used up its
        # own time budget): such configurations are inconclusive, not violations.
        slow = _run_replica(case, a, speed=case["slow_factor"], reverse_listing=True)
        if "error" in slow:
            return {"status": "error", "error": slow["error"], "run_seed": case["run_seed"]}
        out["sim_ns"] += slow["sim_ns"]
        out["slow_replica"] = True

        def ls_bound(rep):
            return rep.get("probes", {}).get("local_search_phase_used_up_its_own_budget", 0) > 0

        # an execution timeout that one machine saw and the other did not, for the same test code
        f_to, f_ok = set(reps[0].get("timeout_codes", [])), set(reps[0].get("ok_codes", []))
        s_to, s_ok = set(slow.get("timeout_codes", [])), set(slow.get("ok_codes", []))
        speed_induced_timeout = bool((s_to & f_ok) | (f_to & s_ok))
        if any(reps[0][k] != slow[k] for k in keys):
            # which of the two environment differences is it?  the slow machine alone ...
            only_slow = _run_replica(case, a, speed=case["slow_factor"])
            if "error" in only_slow:
                return {"status": "error", "error": only_slow["error"], "run_seed": case["run_seed"]}
            if all(reps[0][k] == only_slow[k] for k in keys):
                # ... reproduces the base result, so the order in which directories are listed made the difference
                listing_differs = True
            elif speed_induced_timeout or ls_bound(reps[0]) or ls_bound(slow):
                out["inconclusive_speed"] = True
            else:
                speed_differs = True
    if not (same_seed_differs or cross_differs or speed_differs or listing_differs):
        return out
    # localise: rerun with full draw logs and full event history
    c2 = dict(case, return_hist=True)
    l0 = _run_replica(c2, a, log_draws=True)
    if speed_differs:
        l1 = _run_replica(c2, a, log_draws=True, speed=case["slow_factor"])
    elif listing_differs:
        l1 = _run_replica(c2, a, log_draws=True, reverse_listing=True)
    else:
        l1 = _run_replica(c2, a if same_seed_differs else b, log_draws=True)
    # Is the divergence explained by the module under test itself behaving differently under the other hash
    # seed (identical test code, different execution result, before any test code differs)?  Then the module
    # is not deterministic in the sense of the property and the configuration is inconclusive, not a violation.
    ex0 = [e for e in l0.get("hist", []) if e[0] in ("exec", "res")]
    ex1 = [e for e in l1.get("hist", []) if e[0] in ("exec", "res")]
    for x, y in zip(ex0, ex1):
        if x != y:
            if x[0] == "res" and not same_seed_differs and not speed_differs and not listing_differs:
                out["inconclusive"] = f"execution #{x[1]}: identical test code, different result under the other hash seed"
                out["sut_hash_dependent"] = True
                return out
            break
    first = None
    d0, d1 = l0.get("draw_log", []), l1.get("draw_log", [])
    for i, (x, y) in enumerate(zip(d0, d1)):
        if x != y:
            first = {"index": i, "replica_a": x, "replica_b": y, "previous": d0[max(0, i - 2):i]}
            break
    if first is None and len(d0) != len(d1):
        first = {"index": min(len(d0), len(d1)), "replica_a": d0[len(d1):len(d1) + 1], "replica_b": d1[len(d0):len(d0) + 1],
                 "previous": d0[-2:]}
    site = "no-draw-divergence:outputs-differ"
    if first is not None:
        fa = first["replica_a"]
        fb = first["replica_b"]
        sites = sorted({x[0].rsplit(":", 1)[0] for x in (fa, fb) if isinstance(x, list) and len(x) >= 3})
        site = "diverge@" + "+".join(sites) if sites else "draw-count"
    kind = "machine-speed" if speed_differs else "directory-listing-order" if listing_differs else (
        "same-hashseed" if same_seed_differs else "hashseed")
    out["status"] = "violation"
    out["violation"] = {
        "signature": f"{kind}:{site}",
        "message": (f"{case['module']}/{case['algorithm']} seed={case['seed']}: the same run on a machine "
                    f"{case['slow_factor']}x slower (no execution timeout, no local-search phase out of its own budget) "
                    f"gives another result ({[k for k in keys if reps[0][k] != slow[k]]}); first divergent draw: {first}")
        if speed_differs else
        (f"{case['module']}/{case['algorithm']} seed={case['seed']}: the same run with directories listed in reverse "
         f"order gives another result ({[k for k in keys if reps[0][k] != slow[k]]}); first divergent draw: {first}")
        if listing_differs else
                   f"{case['module']}/{case['algorithm']} seed={case['seed']}: replicas under PYTHONHASHSEED "
                   f"{a} and {a if same_seed_differs else b} disagree "
                   f"({[k for k in keys if reps[0][k] != reps[2 if same_seed_differs else 1][k]]}); "
                   f"first divergent draw: {first}",
        "first_divergent_draw": first,
    }
    out["case"] = case
    return out


def main(tier: str, seed: int, replay: str | None, runs: int | None) -> int:
    t0 = simkit.real_monotonic()
    if replay:
        case = json.load(open(replay))["case"]
        r = _check_config(case)
        if r["status"] == "violation":
            print(f"replayed: {r['violation']['signature']} :: {r['violation']['message'][:600]}")
            print(f"VIOLATION property={ID} replay={replay}")
            return 1
        print("replay did not reproduce a violation" if r["status"] == "ok" else r.get("error"))
        return 0 if r["status"] == "ok" else 2
    budget = BUDGET[tier]
    n = runs or int(os.environ.get("VERIF_RUNS", budget["runs"]))
    wall = float(os.environ.get("VERIF_WALL", budget["wall"]))
    cases = [gen_case(simkit.derive_seed(seed, ID, i), tier) for i in range(n)]
    import glob

    for f in sorted(glob.glob(str(simkit.VERIF / "regressions" / f"{ID}-*.json"))):
        cases.insert(0, json.load(open(f))["case"])
    workers = max(1, int(os.environ.get("VERIF_WORKERS", simkit.ncpu())) // 1)
    results = []

    def job(c):
        if simkit.real_monotonic() - t0 > wall:
            return None
        return _check_config(c)

    with ThreadPoolExecutor(max_workers=workers) as pool:
        for r in pool.map(job, cases):
            if r is not None:
                results.append(r)
    errs = [r for r in results if r["status"] == "error"]
    if errs:
        print("HARNESS-ERROR", errs[0]["error"], file=sys.stderr)
        return 2
    known = simkit.known_signatures(ID)
    new, hit = {}, {}
    for r in results:
        if r["status"] == "violation":
            (hit if r["violation"]["signature"] in known else new).setdefault(r["violation"]["signature"], r)
    for sig in sorted(hit):
        print(f"KNOWN-FINDING: property={ID} {sig} :: {known[sig].get('what', '')}")
    for sig, r in sorted(new.items()):
        path = simkit.write_replay(ID, r["run_seed"], {"property": ID, "run_seed": r["run_seed"], "tier": tier,
                                                       "violation": r["violation"], "case": r["case"]})
        print(f"violation: {sig} :: {r['violation']['message'][:700]}")
        print(f"VIOLATION property={ID} replay={path}")
    wall_s = simkit.real_monotonic() - t0
    distinct = {(r["sample"]["module"], r["sample"]["algorithm"], r["draw_digest"]) for r in results if r.get("nontrivial")}
    coverage = {
        "evaluations": len(results),
        "distinct_nontrivial": len(distinct),
        "rule": RULE,
        "samples": [r["sample"] for r in results[:3]] or [{"note": "none"}],
        "runs_per_hour": int(len(results) * 3 / max(wall_s, 1e-6) * 3600),
        "interpreters_started": len(results) * 3 + sum(1 for r in results if r.get("slow_replica")),
        "sim_seconds_covered": round(sum(r.get("sim_ns", 0) for r in results) / 1e9, 2),
        "fault_counts": {"different_PYTHONHASHSEED_replica": len(results), "same_PYTHONHASHSEED_replica": len(results),
                         "slow_machine_replica": sum(1 for r in results if r.get("slow_replica"))},
        "inconclusive_time_budget_bound_under_other_speed": sum(1 for r in results if r.get("inconclusive_speed")),
        "inconclusive_sut_depends_on_hash_seed": sum(1 for r in results if r.get("inconclusive")),
        "configurations_where_sut_execution_differed_by_hash_seed": sum(1 for r in results if r.get("sut_hash_dependent")),
        "probe_counts": {"total_rng_draws_first_replica": sum(r.get("draws", 0) for r in results)},
        "real_components": REAL, "stubbed_components": STUBS,
        "determinism_selfcheck": {"same_hashseed_replicas_compared": len(results),
                                  "same_hashseed_mismatches": sum(1 for r in results if r["status"] == "violation"
                                                                  and r["violation"]["signature"].startswith("same-"))},
        "known_findings_reproduced": sorted(hit), "violation_signatures": sorted(new),
    }
    if not os.environ.get("VERIF_NO_EVIDENCE"):
        simkit.write_evidence(ID, tier, seed, LEVEL, coverage, ASSUMPTIONS, wall_s, len(new))
    print(f"{ID} {tier}: configurations={len(results)} interpreters={len(results) * 3} "
          f"nontrivial-distinct={len(distinct)} violations={len(new)} known={len(hit)} wall={wall_s:.1f}s")
    return 1 if new else 0
