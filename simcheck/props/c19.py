"""C19 Generated regression assertions are kept in the exported file (E1 monitor; weak fit, stated)."""

from __future__ import annotations

import re

from ..pipeline import Monitor, gen_base_case, run_pipeline
from ..simkit import Streams

ID = "C19"
LEVEL = "exploration"
RULE = ("Each case = one whole simulated Pynguin run with assertion generation (SIMPLE or MUTATION_ANALYSIS, with and "
        "without assertion minimisation and post-processing) on a corpus module. Operation level: every call of "
        "TestCase.remove_unused_variables is wrapped - assertions attached before the call must still be attached "
        "after it; generator._minimize as a whole is bracketed - every statement that carried a regression "
        "assertion before it must, in each test case that survives it (same TestCase object), still exist (modulo "
        "`x = e` -> `e`) with all those assertions. End to end: the assertions attached to each test case "
        "immediately before _export_chromosome are rendered with the exporter's own assertion_to_cst and each rendered line must occur in the corresponding "
        "test_<n> function of the written file. Non-trivial = >= 3 assertions were attached to statements whose "
        "variable is not read by any later statement (the dropping path); distinct = distinct run digest.")
ASSUMPTIONS = [
    "the property is a transformation pipeline; it is claimed only because the failure is an ordering of "
    "post-processing phases observable at operation level inside simulated runs (see DESIGN.md)",
]
REAL = ["assertion generation", "post-processing / minimisation", "TestCase.remove_unused_variables", "TestSuiteWriter.write"]
STUBS = ["time module (SimClock)", "randomness.RNG (instrumented)", "thread scheduling", "assertion filtering subprocess disabled"]
MANIFEST = {
    "engine": "E1-pipeline",
    "technique": "deterministic simulation of whole generator runs; operation-level monitor on the phase that rewrites "
                 "statements plus end-to-end comparison of attached vs. exported assertions",
    "text": "Seeded exploration of complete runs over modules/algorithms/assertion modes; every remove_unused_variables "
            "call, the whole statement/suite minimisation phase (generator._minimize) and the final export are checked "
            "for silently dropped reference assertions. Exception assertions and test cases removed as a whole are "
            "not covered.",
    "note": "Trusted: assertion_to_cst as the rendering of an assertion (the exporter's own function).",
    "ref": "DESIGN.md §3 C19",
}
BUDGET = {
    "quick": {"runs": 224, "chunk": 8, "wall": 170, "chunk_timeout": 300, "selfcheck": 16},
    "thorough": {"runs": 8000, "chunk": 16, "wall": 1700, "chunk_timeout": 600, "selfcheck": 64},
}
_ALGOS = ["DYNAMOSA", "MOSA", "MIO", "WHOLE_SUITE", "RANDOM"]
# the six general corpus modules plus the export-shape module (enums, __all__, custom exceptions, SystemExit,
# Fraction/Decimal/date results, bytes, nested containers, values that flip back, dependency chains)
_MODULES = ["tiny", "words", "shapes", "floats", "zoo", "plain", "gallery", "gallery", "gallery", "wide"]


_PHASE_MODULES = ["plain", "shapes", "zoo", "gallery", "words", "wide"]


def group_key(item):
    # phases-mode cases keep one instrumented module per process: group them by module
    if not isinstance(item, int) or item % 2 == 0:
        return -1
    return (item // 2) % len(_PHASE_MODULES)


def _gen_phases_case(run_seed: int) -> dict:
    """Post-search phases on suites evolved by a seeded history of real variation operators (no search)."""
    st = Streams(run_seed)
    r, k, f = st.get("ops"), st.get("knobs"), st.get("faults")
    ops = []
    for _ in range(r.randrange(10, 70)):
        ops.append({"op": r.choice(["mutate", "mutate", "mutate", "crossover", "clone"]), "a": r.randrange(8), "b": r.randrange(8)})
    return {
        "mode": "phases", "run_seed": run_seed, "module": _PHASE_MODULES[(run_seed // 2) % len(_PHASE_MODULES)],
        "seed": r.randrange(1, 100000), "ntests": r.randrange(2, 6), "ops": ops,
        "knobs": {"chromosome_length": k.choice([12, 24, 40]), "test_insertion_probability": k.choice([0.1, 0.5]),
                  "assertions": k.choice(["SIMPLE", "SIMPLE", "MUTATION_ANALYSIS"]),
                  "assertion_minimization": k.random() < 0.7, "post_process": k.random() < 0.85,
                  "min_strategy": k.choice(["CASE", "SUITE", "COMBINED", "NONE"]),
                  "min_direction": k.choice(["FORWARD", "BACKWARD"]), "max_mutants": 12,
                  "no_xfail": k.random() < 0.3},
        # fault: which generated assertions survive is decided by mutation analysis in a real run (any subset can);
        # here a seeded subset is dropped before post-processing
        "drop_p": f.choice([0.0, 0.0, 0.3, 0.6]),
        "rename": k.random() < 0.5,
    }


def gen_case(run_seed: int, tier: str) -> dict:
    if run_seed % 2 == 1:
        return _gen_phases_case(run_seed)
    st = Streams(run_seed)
    r, k, f = st.get("ops"), st.get("knobs"), st.get("faults")
    case = gen_base_case(run_seed, r, k, algorithms=_ALGOS, modules=_MODULES)
    kn = case["knobs"]
    kn["iterations"] = k.choice([2, 4])
    kn["assertions"] = k.choice(["SIMPLE", "SIMPLE", "MUTATION_ANALYSIS"])
    kn["max_mutants"] = 15
    kn["post_process"] = k.random() < 0.8
    kn["assertion_minimization"] = k.random() < 0.7
    kn["min_strategy"] = k.choice(["CASE", "SUITE", "COMBINED", "NONE"])
    kn["min_direction"] = k.choice(["FORWARD", "BACKWARD"])
    if k.random() < 0.3:
        # long test cases: variable names beyond var_9 (one name a prefix of another), deep dependency chains
        kn["chromosome_length"] = k.choice([30, 40])
        kn["population"] = 4
    case["timeout_p"] = f.choice([0.0, 0.0, 0.05])
    return case


_ASSIGN = re.compile(r"^\s*\w+\s*=\s*(?!=)")


def _rhs(code: str) -> str:
    """Statement text modulo its binding (`x = e` and `e` compare equal)."""
    return _ASSIGN.sub("", code.strip(), count=1)


def _codes(t) -> list[str]:
    import libcst as cst

    return [cst.Module(body=[s.node]).code.strip() for s in t.statements()]


def _render(assertion) -> str | None:
    import libcst as cst

    from pynguin.assertion.assertion_to_ast import assertion_to_cst

    try:
        node = assertion_to_cst(assertion)
    except Exception:  # noqa: BLE001 - the monitor must not die of a rendering defect; the exporter will meet it too
        _unrenderable.append(repr(assertion)[:200])
        return None
    if node is None:
        return None
    return cst.Module(body=[node]).code.strip()


_unrenderable: list = []


class AssertionMonitor(Monitor):
    def __init__(self):
        self.expected = []
        self.total = 0
        self.on_unused = 0
        self.ruv_calls = 0
        self.min_matched = self.min_unmatched = self.min_asserted_statements = 0

    def on_setup(self, run):
        import pynguin.testcase.testcase as tc

        mon = self
        orig = tc.TestCase.remove_unused_variables

        def ruv(self_tc):
            before = [(i, type(a).__name__, _render(a)) for i, s in enumerate(self_tc.statements()) for a in s.assertions]
            orig(self_tc)
            mon.ruv_calls += 1
            after = [(i, type(a).__name__, _render(a)) for i, s in enumerate(self_tc.statements()) for a in s.assertions]
            if len(after) < len(before):
                lost = [b for b in before if b not in after]
                run.violate("remove_unused_variables-drops-assertions:" + lost[0][1],
                            f"remove_unused_variables removed {len(before) - len(after)} assertion(s), e.g. statement "
                            f"{lost[0][0]}: {lost[0][2]!r}\n{self_tc.to_code()}")

        run.patch(tc.TestCase, "remove_unused_variables", ruv)

    # -- minimisation phase (generator._minimize: exception truncation, unused-variable removal, iterative /
    #    combined statement minimisation, suite minimisation, empty-test removal) -------------------------------
    def before_minimize(self, run, suite):
        self.min_before = []
        for chrom in suite.test_case_chromosomes:
            t = chrom.test_case
            stmts = t.statements()
            bound = {s.bound_variable: i for i, s in enumerate(stmts) if s.bound_variable}
            names = sorted(bound)
            if any(a != b and b.startswith(a) for a in names for b in names):
                run.probe("tests_with_a_variable_name_that_prefixes_another")
            for i, s in enumerate(stmts):
                b = s.bound_variable
                if b and s.assertions:
                    roots = {str(getattr(a, "source", "")).split(".")[0] for a in s.assertions}
                    if b not in roots and any(r != b and r.startswith(b) for r in roots):
                        run.probe("statements_asserting_only_on_a_variable_whose_name_extends_their_own")
            depth = {}
            for i, s in enumerate(stmts):
                deps = [bound[v] for v in s.used_variables() if v in bound and bound[v] < i]
                depth[i] = 1 + max((depth[d] for d in deps), default=0)
                if s.assertions and depth[i] >= 4:
                    run.probe("asserted_statements_at_dependency_depth_4plus")
            snap = []
            for s, code in zip(t.statements(), _codes(t)):
                refs = [r for r in (_render(a) for a in s.assertions if hasattr(a, "source")) if r]
                if refs:
                    snap.append((code, refs))
            # the TestCase object is edited in place by every visitor; holding it keeps its id unique
            self.min_before.append((t, snap))

    def after_minimize(self, run, suite):
        alive = {id(c.test_case): c.test_case for c in suite.test_case_chromosomes}
        for t, snap in getattr(self, "min_before", []):
            now = alive.get(id(t))
            if now is None:
                # test case removed as a whole (suite minimisation, empty-test removal) or the unminimised suite
                # was restored as clones: nothing to compare statement-wise
                self.min_unmatched += 1
                continue
            self.min_matched += 1
            after = [(_rhs(code), {r for r in (_render(a) for a in s.assertions) if r})
                     for s, code in zip(now.statements(), _codes(now))]
            for code, refs in snap:
                self.min_asserted_statements += 1
                same = [asserts for rhs, asserts in after if rhs == _rhs(code)]
                if not same:
                    run.violate("minimize:asserted-statement-removed",
                                f"statement `{code}` carried {len(refs)} regression assertion(s) (e.g. {refs[0]!r}) "
                                f"before generator._minimize and is gone afterwards; surviving test case:\n"
                                f"{now.to_code()}")
                    return
                # existential over equal statements: sound when a test case repeats a statement
                if not any(all(r in asserts for r in refs) for asserts in same):
                    missing = [r for r in refs if not any(r in asserts for asserts in same)] or refs
                    run.violate("minimize:assertion-dropped",
                                f"statement `{code}` lost assertion {missing[0]!r} during generator._minimize; "
                                f"surviving test case:\n{now.to_code()}")
                    return

    def before_export(self, run, suite):
        self.expected = []
        for idx, chrom in enumerate(suite.test_case_chromosomes):
            t = chrom.test_case
            stmts = t.statements()
            lines = []
            for i, s in enumerate(stmts):
                later_reads = set()
                for s2 in stmts[i + 1:]:
                    later_reads |= set(s2.used_variables())
                for a in s.assertions:
                    src = _render(a)
                    if src is None:
                        continue
                    lines.append((i, type(a).__name__, src))
                    self.total += 1
                    if s.bound_variable is not None and s.bound_variable not in later_reads:
                        self.on_unused += 1
            self.expected.append(lines)

    def finish(self, run):
        if run.test_file is None:
            return
        text = run.test_file.decode("utf-8", "replace")
        funcs = {}
        for m in re.finditer(r"^def test_(\d+)\(\):\n((?:    .*\n|\n)*)", text, flags=re.M):
            funcs[int(m.group(1))] = m.group(2)
        for idx, lines in enumerate(self.expected):
            body = funcs.get(idx)
            if lines and body is None:
                run.violate("export:test-function-missing", f"test_{idx} with {len(lines)} assertions not in the file")
                return
            if body is None:
                continue
            norm = [ln.strip() for ln in body.splitlines()]
            # in order and with multiplicity: the i-th attached assertion must be written after the (i-1)-th one, so an
            # assertion that is attached to two statements (the value returned to an earlier one) must be written twice
            cursor = 0
            for pos, kind, src in lines:
                first = src.splitlines()[0].strip()
                try:
                    cursor = norm.index(first, cursor) + 1
                except ValueError:
                    where = "not in the written function" if first not in norm else \
                        "written fewer times than attached / not after the assertions of the preceding statements"
                    run.violate(f"export:assertion-missing:{kind}",
                                f"assertion of statement {pos} in test_{idx} is attached before export but {where}: "
                                f"{src!r}\nfunction body:\n{body}")
                    return


class _PhaseRun:
    """What AssertionMonitor needs from a run, for the phases mode (no simulated pipeline around it)."""

    def __init__(self, case):
        from ..simkit import History

        self.case = case
        self.violation = None
        self.probes: dict = {}
        self.hist = History()
        self.phase = "phases"
        self.test_file = None
        self._undo = []

    def violate(self, signature, message, **extra):
        if self.violation is None:
            self.violation = {"signature": signature, "message": message, "phase": self.phase, **extra}

    def probe(self, name, n=1):
        self.probes[name] = self.probes.get(name, 0) + n

    def patch(self, obj, name, new):
        self._undo.append((obj, name, getattr(obj, name)))
        setattr(obj, name, new)

    def undo(self):
        for obj, name, old in reversed(self._undo):
            setattr(obj, name, old)


_phase_env: dict = {}


def _get_phase_env(module: str):
    from ..opsenv import OpsEnv

    env = _phase_env.get(module)
    if env is None:
        import shutil

        for old in _phase_env.values():
            shutil.rmtree(old.out_dir, ignore_errors=True)
        _phase_env.clear()
        # generous real timeouts: the corpus terminates, and a spurious timeout under load must not change a digest
        env = _phase_env[module] = OpsEnv(module, "DYNAMOSA", stopping={"maximum_test_execution_timeout": 120,
                                                                         "test_execution_time_per_statement": 60})
    return env


def _run_phases(case: dict) -> dict:
    import hashlib
    import os

    import pynguin.configuration as config
    import pynguin.ga.operators.crossover as co
    import pynguin.ga.testcasechromosome as tcc
    import pynguin.ga.testsuitechromosome as tsc
    import pynguin.generator as gen
    from pynguin.analyses.constants import DynamicConstantProvider

    from .. import simkit

    env = _get_phase_env(case["module"])
    kn = case["knobs"]
    gen.set_configuration(env.cfg)  # a pipeline-mode case in the same process installs its own configuration
    cfg = env.cfg
    env.apply_knobs({"search_algorithm.chromosome_length": kn["chromosome_length"],
                     "search_algorithm.test_insertion_probability": kn["test_insertion_probability"]})
    out = cfg.test_case_output
    out.assertion_generation = getattr(config.AssertionGenerator, kn["assertions"])
    out.assertion_minimization = kn["assertion_minimization"]
    out.post_process = kn["post_process"]
    out.no_xfail = kn["no_xfail"]
    out.maximum_mutants = kn["max_mutants"]
    out.filter_assertions_in_subprocess = False
    out.minimization.test_case_minimization_strategy = getattr(config.MinimizationStrategy, kn["min_strategy"])
    out.minimization.test_case_minimization_direction = getattr(config.MinimizationDirection, kn["min_direction"])
    prov = env.constants
    while prov is not None:
        if isinstance(prov, DynamicConstantProvider):
            for vals in prov._pool._constants.values():  # noqa: SLF001
                vals.clear()
        prov = getattr(prov, "_delegate", None)
    env.reseed(case["seed"])
    run = _PhaseRun(case)
    mon = AssertionMonitor()
    drop_rng = simkit.HRandom(simkit.derive_seed(case["run_seed"], "drop"))
    dropped = 0
    try:
        mon.on_setup(run)

        def new_tc():
            c = env.chromosome_factory.get_chromosome()
            return tcc.TestCaseChromosome(test_case=c.test_case, test_factory=env.factory)

        def ok_len(chrom) -> int:
            """Statements executed before the first exception (a stand-in for the search's selection pressure)."""
            res = env.executor.execute(chrom.test_case)
            if res.timeout:
                return 0
            return min(res.exceptions) if res.exceptions else chrom.test_case.size()

        cands = [new_tc() for _ in range(24)]
        cands.sort(key=lambda c_: -ok_len(c_))  # stable: ties keep generation order
        tests = cands[: case["ntests"]]
        xo = co.SinglePointRelativeCrossOver()
        for op in case["ops"]:
            t = tests[op["a"] % len(tests)]
            if op["op"] == "mutate":
                cand = t.clone()
                cand.mutate()
                if ok_len(cand) >= ok_len(t):  # keep a variation only if it does not fail earlier than its parent
                    tests[op["a"] % len(tests)] = cand
                    run.probe("variations_accepted")
            elif op["op"] == "crossover":
                u = tests[op["b"] % len(tests)]
                if u is not t:
                    a_, b_ = t.clone(), u.clone()
                    xo.cross_over(a_, b_)
                    if ok_len(a_) >= ok_len(t):
                        tests[op["a"] % len(tests)] = a_
                        run.probe("variations_accepted")
            else:
                tests[op["b"] % len(tests)] = t.clone()
        if case.get("rename"):
            # variable names are labels: give every test case a seeded injective renaming (what long evolution with
            # insertions and crossover tails produces slowly - names out of order, one name a prefix of another)
            import pynguin.testcase.testcase as tcm

            ren_rng = simkit.HRandom(simkit.derive_seed(case["run_seed"], "rename"))
            for i, t in enumerate(tests):
                old_tc = t.test_case
                names = [s_.bound_variable for s_ in old_tc.statements() if s_.bound_variable]
                pool = list(range(max(14, 2 * len(names))))
                ren_rng.shuffle(pool)
                mapping = {n_: f"var_{pool[j]}" for j, n_ in enumerate(names)}
                if len(names) >= 2 and ren_rng.random() < 0.6:
                    # adversarial labels: make one name a proper prefix of another (var_3 / var_31)
                    short, long_ = ren_rng.sample(names, 2)
                    k_ = ren_rng.randrange(1, 10)
                    want = {short: f"var_{k_}", long_: f"var_{k_}{ren_rng.randrange(10)}"}
                    taken = set(want.values())
                    free = [f"var_{x}" for x in range(100, 100 + len(names))]
                    for n_ in names:
                        if n_ in want:
                            mapping[n_] = want[n_]
                        elif mapping[n_] in taken:
                            mapping[n_] = free.pop()
                    run.probe("test_cases_with_adversarial_prefix_names")
                new_tc = tcm.TestCase()
                for s_ in old_tc.statements():
                    node = s_.node.visit(tcm._VariableRenamer(mapping))  # noqa: SLF001
                    new_tc.add_statement(tcm.Statement(node=node, bound_variable=mapping.get(s_.bound_variable),
                                                       bound_type=s_.bound_type, assertions=[],
                                                       accessible=s_.accessible, ml_info=s_.ml_info))
                new_tc._var_counter = 200  # noqa: SLF001
                tests[i] = tcc.TestCaseChromosome(test_case=new_tc, test_factory=env.factory)
            run.probe("test_cases_renamed", len(tests))
        suite = tsc.TestSuiteChromosome()
        for t in tests:
            if t.test_case.size() > 0:
                suite.add_test_case_chromosome(t)
        for f_ in env.strategy.test_suite_coverage_functions:
            suite.add_coverage_function(f_)
        for c in suite.test_case_chromosomes:
            run.hist.add("tc", hashlib.sha256(c.test_case.to_code().encode()).hexdigest()[:12])
        run.phase = "assertions"
        gen._generate_assertions(env.executor, suite, env.cluster)  # noqa: SLF001
        if case["drop_p"]:
            for c in suite.test_case_chromosomes:
                for st_ in c.test_case.statements():
                    keep = [a for a in st_.assertions if drop_rng.random() >= case["drop_p"]]
                    dropped += len(st_.assertions) - len(keep)
                    st_.assertions[:] = keep
        run.phase = "minimize"
        mon.before_minimize(run, suite)
        gen._minimize(suite, env.strategy)  # noqa: SLF001
        mon.after_minimize(run, suite)
        run.phase = "export"
        mon.before_export(run, suite)
        gen._export_chromosome(suite, subject_properties=env.executor.subject_properties)  # noqa: SLF001
        tf = os.path.join(env.out_dir, f"test_{case['module']}.py")
        if os.path.exists(tf):
            with open(tf, "rb") as fh:
                run.test_file = fh.read()
            os.remove(tf)
        run.hist.add("file", hashlib.sha256(run.test_file or b"").hexdigest()[:16])
        run.phase = "finish"
        mon.finish(run)
    except Exception as e:  # noqa: BLE001
        import traceback

        tb = traceback.extract_tb(e.__traceback__)
        where = next((f"{f.filename.rsplit('/', 1)[-1]}:{f.name}" for f in reversed(tb) if "/pynguin/" in f.filename), "?")
        if where == "?":
            raise
        run.violate(f"phases-raised:{type(e).__name__}@{where}", f"{type(e).__name__}: {e}\n{traceback.format_exc()[-1500:]}")
    finally:
        run.undo()
    res = {"violation": run.violation, "digest": run.hist.digest(), "probes": dict(run.probes), "sim_ns": 0,
           "faults": {"assertion_subset_dropped_before_postprocessing": dropped},
           "events": list(run.hist.events) if case.get("return_hist") else None}
    return _finish(case, mon, res)


def run_case(case: dict) -> dict:
    if case.get("mode") == "phases":
        return _run_phases(case)
    mon = AssertionMonitor()
    run, res = run_pipeline(case, [mon])
    return _finish(case, mon, res)


def _finish(case: dict, mon, res: dict) -> dict:
    res["nontrivial"] = mon.on_unused >= 3
    res["probes"].update(assertions_before_export=mon.total, assertions_on_otherwise_unused_variables=mon.on_unused,
                         remove_unused_variables_calls=mon.ruv_calls,
                         minimize_test_cases_compared=mon.min_matched,
                         minimize_test_cases_removed_or_restored=mon.min_unmatched,
                         minimize_asserted_statements_checked=mon.min_asserted_statements)
    res["probes"]["phases_mode_cases" if case.get("mode") == "phases" else "pipeline_mode_cases"] = 1
    if case["run_seed"] % 11 in (0, 1):
        res["sample"] = {"mode": case.get("mode", "pipeline"), "module": case["module"], "algorithm": case.get("algorithm"),
                         "knobs": case["knobs"], "ops": [o["op"] for o in case.get("ops", [])][:30],
                         "assertions": mon.total, "on_unused": mon.on_unused}
    res["executed_case"] = case
    return res


def minimise(case: dict, signature: str) -> dict:
    import sys

    if case.get("mode") == "phases":
        from ..driver import default_minimise

        return default_minimise(sys.modules[__name__], case, signature, max_tests=40)
    from .c10 import _min_with

    return _min_with(sys.modules[__name__], case, signature)
