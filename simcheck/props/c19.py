"""C19 Generated regression assertions are kept in the exported file (E1 monitor; weak fit, stated)."""

from __future__ import annotations

import re

from ..pipeline import Monitor, gen_base_case, run_pipeline
from ..simkit import Streams

ID = "C19"
LEVEL = "exploration"
RULE = ("Each case = one whole simulated Pynguin run with assertion generation (SIMPLE or MUTATION_ANALYSIS, with and "
        "without assertion minimisation and post-processing) on a corpus module. Operation level: every call of "
        "TestCase.remove_unused_variables is wrapped - assertions attached before the call must still be attached "
        "after it; generator._minimize as a whole is bracketed - every statement that carried a regression "
        "assertion before it must, in each test case that survives it (same TestCase object), still exist (modulo "
        "`x = e` -> `e`) with all those assertions. End to end: the assertions attached to each test case "
        "immediately before _export_chromosome are rendered with the exporter's own assertion_to_cst and each rendered line must occur in the corresponding "
        "test_<n> function of the written file. Non-trivial = >= 3 assertions were attached to statements whose "
        "variable is not read by any later statement (the dropping path); distinct = distinct run digest.")
ASSUMPTIONS = [
    "the property is a transformation pipeline; it is claimed only because the failure is an ordering of "
    "post-processing phases observable at operation level inside simulated runs (see DESIGN.md)",
]
REAL = ["assertion generation", "post-processing / minimisation", "TestCase.remove_unused_variables", "TestSuiteWriter.write"]
STUBS = ["time module (SimClock)", "randomness.RNG (instrumented)", "thread scheduling", "assertion filtering subprocess disabled"]
MANIFEST = {
    "engine": "E1-pipeline",
    "technique": "deterministic simulation of whole generator runs; operation-level monitor on the phase that rewrites "
                 "statements plus end-to-end comparison of attached vs. exported assertions",
    "text": "Seeded exploration of complete runs over modules/algorithms/assertion modes; every remove_unused_variables "
            "call, the whole statement/suite minimisation phase (generator._minimize) and the final export are checked "
            "for silently dropped reference assertions. Exception assertions and test cases removed as a whole are "
            "not covered.",
    "note": "Trusted: assertion_to_cst as the rendering of an assertion (the exporter's own function).",
    "ref": "DESIGN.md §3 C19",
}
BUDGET = {
    "quick": {"runs": 224, "chunk": 8, "wall": 170, "chunk_timeout": 300, "selfcheck": 16},
    "thorough": {"runs": 8000, "chunk": 16, "wall": 1700, "chunk_timeout": 600, "selfcheck": 64},
}
_ALGOS = ["DYNAMOSA", "MOSA", "MIO", "WHOLE_SUITE", "RANDOM"]


def gen_case(run_seed: int, tier: str) -> dict:
    st = Streams(run_seed)
    r, k, f = st.get("ops"), st.get("knobs"), st.get("faults")
    case = gen_base_case(run_seed, r, k, algorithms=_ALGOS)
    kn = case["knobs"]
    kn["iterations"] = k.choice([2, 4])
    kn["assertions"] = k.choice(["SIMPLE", "SIMPLE", "MUTATION_ANALYSIS"])
    kn["max_mutants"] = 15
    kn["post_process"] = k.random() < 0.8
    kn["assertion_minimization"] = k.random() < 0.7
    kn["min_strategy"] = k.choice(["CASE", "SUITE", "COMBINED", "NONE"])
    kn["min_direction"] = k.choice(["FORWARD", "BACKWARD"])
    case["timeout_p"] = f.choice([0.0, 0.0, 0.05])
    return case


_ASSIGN = re.compile(r"^\s*\w+\s*=\s*(?!=)")


def _rhs(code: str) -> str:
    """Statement text modulo its binding (`x = e` and `e` compare equal)."""
    return _ASSIGN.sub("", code.strip(), count=1)


def _codes(t) -> list[str]:
    import libcst as cst

    return [cst.Module(body=[s.node]).code.strip() for s in t.statements()]


def _render(assertion) -> str | None:
    import libcst as cst

    from pynguin.assertion.assertion_to_ast import assertion_to_cst

    node = assertion_to_cst(assertion)
    if node is None:
        return None
    return cst.Module(body=[node]).code.strip()


class AssertionMonitor(Monitor):
    def __init__(self):
        self.expected = []
        self.total = 0
        self.on_unused = 0
        self.ruv_calls = 0
        self.min_matched = self.min_unmatched = self.min_asserted_statements = 0

    def on_setup(self, run):
        import pynguin.testcase.testcase as tc

        mon = self
        orig = tc.TestCase.remove_unused_variables

        def ruv(self_tc):
            before = [(i, type(a).__name__, _render(a)) for i, s in enumerate(self_tc.statements()) for a in s.assertions]
            orig(self_tc)
            mon.ruv_calls += 1
            after = [(i, type(a).__name__, _render(a)) for i, s in enumerate(self_tc.statements()) for a in s.assertions]
            if len(after) < len(before):
                lost = [b for b in before if b not in after]
                run.violate("remove_unused_variables-drops-assertions:" + lost[0][1],
                            f"remove_unused_variables removed {len(before) - len(after)} assertion(s), e.g. statement "
                            f"{lost[0][0]}: {lost[0][2]!r}\n{self_tc.to_code()}")

        run.patch(tc.TestCase, "remove_unused_variables", ruv)

    # -- minimisation phase (generator._minimize: exception truncation, unused-variable removal, iterative /
    #    combined statement minimisation, suite minimisation, empty-test removal) -------------------------------
    def before_minimize(self, run, suite):
        self.min_before = []
        for chrom in suite.test_case_chromosomes:
            t = chrom.test_case
            snap = []
            for s, code in zip(t.statements(), _codes(t)):
                refs = [r for r in (_render(a) for a in s.assertions if hasattr(a, "source")) if r]
                if refs:
                    snap.append((code, refs))
            # the TestCase object is edited in place by every visitor; holding it keeps its id unique
            self.min_before.append((t, snap))

    def after_minimize(self, run, suite):
        alive = {id(c.test_case): c.test_case for c in suite.test_case_chromosomes}
        for t, snap in getattr(self, "min_before", []):
            now = alive.get(id(t))
            if now is None:
                # test case removed as a whole (suite minimisation, empty-test removal) or the unminimised suite
                # was restored as clones: nothing to compare statement-wise
                self.min_unmatched += 1
                continue
            self.min_matched += 1
            after = [(_rhs(code), {r for r in (_render(a) for a in s.assertions) if r})
                     for s, code in zip(now.statements(), _codes(now))]
            for code, refs in snap:
                self.min_asserted_statements += 1
                same = [asserts for rhs, asserts in after if rhs == _rhs(code)]
                if not same:
                    run.violate("minimize:asserted-statement-removed",
                                f"statement `{code}` carried {len(refs)} regression assertion(s) (e.g. {refs[0]!r}) "
                                f"before generator._minimize and is gone afterwards; surviving test case:\n"
                                f"{now.to_code()}")
                    return
                # existential over equal statements: sound when a test case repeats a statement
                if not any(all(r in asserts for r in refs) for asserts in same):
                    missing = [r for r in refs if not any(r in asserts for asserts in same)] or refs
                    run.violate("minimize:assertion-dropped",
                                f"statement `{code}` lost assertion {missing[0]!r} during generator._minimize; "
                                f"surviving test case:\n{now.to_code()}")
                    return

    def before_export(self, run, suite):
        self.expected = []
        for idx, chrom in enumerate(suite.test_case_chromosomes):
            t = chrom.test_case
            stmts = t.statements()
            lines = []
            for i, s in enumerate(stmts):
                later_reads = set()
                for s2 in stmts[i + 1:]:
                    later_reads |= set(s2.used_variables())
                for a in s.assertions:
                    src = _render(a)
                    if src is None:
                        continue
                    lines.append((i, type(a).__name__, src))
                    self.total += 1
                    if s.bound_variable is not None and s.bound_variable not in later_reads:
                        self.on_unused += 1
            self.expected.append(lines)

    def finish(self, run):
        if run.test_file is None:
            return
        text = run.test_file.decode("utf-8", "replace")
        funcs = {}
        for m in re.finditer(r"^def test_(\d+)\(\):\n((?:    .*\n|\n)*)", text, flags=re.M):
            funcs[int(m.group(1))] = m.group(2)
        for idx, lines in enumerate(self.expected):
            body = funcs.get(idx)
            if lines and body is None:
                run.violate("export:test-function-missing", f"test_{idx} with {len(lines)} assertions not in the file")
                return
            if body is None:
                continue
            norm = [ln.strip() for ln in body.splitlines()]
            for pos, kind, src in lines:
                first = src.splitlines()[0].strip()
                if first not in norm:
                    run.violate(f"export:assertion-missing:{kind}",
                                f"assertion of statement {pos} in test_{idx} is attached before export but not in the "
                                f"written function: {src!r}\nfunction body:\n{body}")
                    return


def run_case(case: dict) -> dict:
    mon = AssertionMonitor()
    run, res = run_pipeline(case, [mon])
    res["nontrivial"] = mon.on_unused >= 3
    res["probes"].update(assertions_before_export=mon.total, assertions_on_otherwise_unused_variables=mon.on_unused,
                         remove_unused_variables_calls=mon.ruv_calls,
                         minimize_test_cases_compared=mon.min_matched,
                         minimize_test_cases_removed_or_restored=mon.min_unmatched,
                         minimize_asserted_statements_checked=mon.min_asserted_statements)
    if case["run_seed"] % 11 == 0:
        res["sample"] = {"module": case["module"], "algorithm": case["algorithm"], "knobs": case["knobs"],
                         "assertions": mon.total, "on_unused": mon.on_unused}
    res["executed_case"] = case
    return res


def minimise(case: dict, signature: str) -> dict:
    import sys

    from .c10 import _min_with

    return _min_with(sys.modules[__name__], case, signature)
