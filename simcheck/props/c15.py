"""C15 Variation operators keep every test case well-formed (E4)."""

from __future__ import annotations

import re

from .. import simkit
from ..opsenv import OpsEnv
from ..simkit import Streams

ID = "C15"
LEVEL = "exploration"
RULE = ("Each case = seeded history of 15-60 operations on a pool of 2-6 real test-case chromosomes over one of 5 corpus "
        "modules, driven by the real TestFactory and operators: insert_random_statement, delete_statement, "
        "delete_statement_gracefully, change_random_call, change_statement_type, change_random_field_call, mutate_value, "
        "mutate_call, full TestCaseMutation.mutate, single-point relative crossover between pool members, chop, "
        "remove_unused_variables, clone; swarm knobs force failure paths (max_recursion 0-3, chromosome_length 5-15, "
        "reuse/none/any weights at extremes). After every operation every touched test case is checked: compiles; "
        "every var_N read is bound earlier; bound names unique; type registry equals a rebuild; var counter above all "
        "indices; size <= chromosome_length after crossover and insertion; at the end a fresh execution raises no "
        "NameError/UnboundLocalError. Non-trivial = >= 3 different operator kinds changed a test case and one test "
        "reached >= 5 statements; distinct = distinct history digest.")
ASSUMPTIONS = ["operators are called the way the search calls them (positions within bounds, chromosomes with factory)"]
REAL = ["TestFactory", "TestCase (libcst statements, registry)", "TestCaseMutation", "SinglePointRelativeCrossOver / "
        "splice_test_case_chromosomes", "TestCaseChromosomeFactory", "TestCaseExecutor (final execution)"]
STUBS = ["none (randomness.RNG reseeded per case; scheduler not involved)"]
MANIFEST = {
    "engine": "E4-stateful",
    "technique": "seeded operation histories on live test cases driven by the real factory and operators, with "
                 "configuration swarm as fault injection; structural invariants checked after every operation",
    "text": "Seeded exploration of operator histories; invariant checking after every step (well-formedness, binding, "
            "registry consistency, length bound) plus a final execution as NameError oracle.",
    "note": "Trusted: the invariant checker in this file (regex over var_N names, registry rebuild).",
    "ref": "DESIGN.md §3 C15",
}
BUDGET = {
    "quick": {"runs": 640, "chunk": 20, "wall": 170, "chunk_timeout": 600},
    "thorough": {"runs": 30000, "chunk": 150, "wall": 1700, "chunk_timeout": 900},
}
_MODULES = ["tiny", "words", "shapes", "floats", "zoo"]
_OPS = ["insert", "insert", "delete", "delete_gracefully", "change_call", "change_type", "change_field", "mutate_value",
        "mutate_call", "mutate", "mutate", "mutation_insert", "mutation_insert", "crossover", "crossover", "chop", "remove_unused", "clone", "new",
        "local_search"]
_env: dict = {}
_VAR = re.compile(r"var_\d+")


def group_key(item):
    return item % len(_MODULES) if isinstance(item, int) else -1


def setup_process():
    from .. import pyn

    pyn.import_pynguin()


def get_env(module: str) -> OpsEnv:
    # a fresh environment per case: the cluster, constant pools and type information are mutable and would make a
    # case depend on the cases run before it in the same process
    old = _env.pop("env", None)
    if old is not None:
        import shutil

        shutil.rmtree(old.out_dir, ignore_errors=True)
    _env["env"] = OpsEnv(module, "DYNAMOSA")
    return _env["env"]


def gen_case(run_seed: int, tier: str) -> dict:
    st = Streams(run_seed)
    r, k = st.get("ops"), st.get("knobs")
    module = _MODULES[run_seed % len(_MODULES)]
    npool = r.randrange(2, 7)
    ops = []
    for _ in range(r.randrange(15, 61)):
        ops.append({"op": r.choice(_OPS), "a": r.randrange(npool), "b": r.randrange(npool), "pos": r.random()})
    knobs = {
        "test_creation.max_recursion": k.choice([0, 1, 2, 3, 10]),
        "search_algorithm.chromosome_length": k.choice([5, 8, 15, 48]),
        "test_creation.object_reuse_probability": k.choice([0.0, 0.9, 1.0]),
        "test_creation.none_weight": k.choice([0, 1, 5]),
        "test_creation.any_weight": k.choice([0, 5]),
        "test_creation.primitive_reuse_probability": k.choice([0.0, 0.5, 1.0]),
        "search_algorithm.statement_insertion_probability": k.choice([0.5, 0.9]),
        "search_algorithm.change_statement_type_probability": k.choice([0.05, 0.5]),
    }
    return {"run_seed": run_seed, "module": module, "seed": r.randrange(1, 100000), "npool": npool, "ops": ops,
            "knobs": knobs}


def wellformed(tc, max_len: int | None) -> str | None:
    code = tc.to_code()
    try:
        compile(code, "<t>", "exec")
    except SyntaxError as e:
        return f"syntax:{e.msg}"
    bound: list[str] = []
    for i, stmt in enumerate(tc.statements()):
        for name in stmt.used_variables():
            if _VAR.fullmatch(name) and name not in bound:
                return f"unbound-read:{name}@{i}"
        if stmt.bound_variable is not None:
            if stmt.bound_variable in bound:
                return f"duplicate-binding:{stmt.bound_variable}@{i}"
            bound.append(stmt.bound_variable)
    rebuilt: dict = {}
    for stmt in tc.statements():
        if stmt.bound_variable is not None and stmt.bound_type is not None:
            rebuilt.setdefault(stmt.bound_type, []).append(stmt.bound_variable)
    reg = {t: sorted(v) for t, v in tc._type_registry.items() if v}
    if reg != {t: sorted(v) for t, v in rebuilt.items()}:
        return "registry-mismatch"
    idx = [int(b.split("_")[1]) for b in bound if _VAR.fullmatch(b)]
    if idx and tc._var_counter <= max(idx):
        return f"var-counter:{tc._var_counter}<={max(idx)}"
    if max_len is not None and tc.size() > max_len:
        return f"too-long:{tc.size()}>{max_len}"
    return None


def run_case(case: dict) -> dict:
    env = get_env(case["module"])
    import pynguin.ga.operators.crossover as co

    env.apply_knobs(case["knobs"])
    env.reseed(case["seed"])
    hist = simkit.History()
    violation = None
    max_len = env.cfg.search_algorithm.chromosome_length
    pool = [env.chromosome_factory.get_chromosome() for _ in range(case["npool"])]
    crossover = co.SinglePointRelativeCrossOver()
    changed_kinds = set()
    probes = {"ops": 0, "ops_changed": 0, "crossover_applied": 0, "max_size": 0, "executed": 0, "op_errors": 0}

    def check(chrom, opname, bound):
        nonlocal violation
        if violation is None:
            bad = wellformed(chrom.test_case, max_len if bound else None)
            if bad:
                violation = {"signature": f"{opname}:{bad.split(':')[0]}",
                             "message": f"after {opname}: {bad}\n{chrom.test_case.to_code()}"}

    for c in pool:
        check(c, "factory.get_chromosome", False)
    for n, op in enumerate(case["ops"]):
        if violation:
            break
        name = op["op"]
        a = pool[op["a"] % len(pool)]
        tc = a.test_case
        before = tc.to_code()
        size = tc.size()
        pos = int(op["pos"] * size) if size else 0
        bound_after = False
        probes["ops"] += 1
        try:
            if name == "insert":
                env.factory.insert_random_statement(tc, min(pos, size))
            elif name == "delete" and size:
                # the bare primitive is only legal for statements nothing depends on (the search itself always
                # goes through delete_statement_gracefully)
                if tc.forward_dependencies(pos) == {pos}:
                    env.factory.delete_statement(tc, pos)
            elif name == "delete_gracefully" and size:
                env.factory.delete_statement_gracefully(tc, pos)
            elif name == "change_call" and size:
                env.factory.change_random_call(tc, pos)
            elif name == "change_type" and size:
                env.factory.change_statement_type(tc, pos)
            elif name == "change_field" and size:
                env.factory.change_random_field_call(tc, pos)
            elif name == "mutate_value" and size:
                env.factory.mutate_value(tc, pos)
            elif name == "mutate_call" and size:
                env.factory.mutate_call(tc, pos)
            elif name == "mutate":
                a.mutate()  # may legitimately grow through argument regeneration; bound checked for insertion only
            elif name == "mutation_insert":
                was_within = size <= max_len
                a._mutation_insert()
                bound_after = was_within  # insertion must not grow a test beyond the configured maximum
            elif name == "crossover":
                b = pool[op["b"] % len(pool)]
                if b is not a:
                    sa, sb = a.size(), b.size()
                    crossover.cross_over(a, b)
                    probes["crossover_applied"] += 1
                    check(b, "crossover", sb <= max_len)
                    bound_after = sa <= max_len
            elif name == "local_search" and size:
                # the real suite-level local search on the pool (edits the pool's test cases in place), with the
                # per-statement probability raised and a seeded choice of search kinds
                import pynguin.testcase.localsearch as lsm
                from pynguin.testcase.localsearchtimer import LocalSearchTimer

                lcfg = env.cfg.local_search
                saved = (lcfg.local_search_probability, lcfg.local_search_same_datatype,
                         lcfg.local_search_different_datatype, lcfg.local_search_collections,
                         lcfg.local_search_complex_objects)
                lcfg.local_search_probability = 0.2
                lcfg.local_search_same_datatype = op["pos"] < 0.7
                lcfg.local_search_different_datatype = op["pos"] > 0.3
                lcfg.local_search_collections = True
                lcfg.local_search_complex_objects = True
                try:
                    members = [c for c in (a, pool[op["b"] % len(pool)]) if c.test_case.size() > 0]
                    members = members[:1] if len(members) == 2 and members[0] is members[1] else members
                    suite = env.strategy.create_test_suite(members)
                    suite.get_fitness()
                    class _StepTimer(LocalSearchTimer):
                        """A budget in steps instead of wall time: exactly repeatable, and it bounds searches that
                        would otherwise run for minutes (integer/string searches re-execute the test at every step)."""

                        def __init__(self, steps):
                            super().__init__()
                            self._steps = steps

                        def start_timer(self):
                            pass

                        def limit_reached(self):
                            self._steps -= 1
                            return self._steps < 0

                    timer = _StepTimer(150)
                    lsm.TestSuiteLocalSearch().local_search(suite, env.factory, env.executor, timer)
                finally:
                    (lcfg.local_search_probability, lcfg.local_search_same_datatype, lcfg.local_search_different_datatype,
                     lcfg.local_search_collections, lcfg.local_search_complex_objects) = saved
                probes["local_search_runs"] = probes.get("local_search_runs", 0) + 1
                for other in pool:
                    if other is not a:
                        check(other, name, False)
            elif name == "chop" and size:
                tc.chop(pos)
            elif name == "remove_unused":
                tc.remove_unused_variables()
            elif name == "clone":
                pool[op["a"] % len(pool)] = a.clone()
                a = pool[op["a"] % len(pool)]
            elif name == "new":
                pool[op["a"] % len(pool)] = env.chromosome_factory.get_chromosome()
                a = pool[op["a"] % len(pool)]
        except Exception as e:  # noqa: BLE001
            import traceback

            tb = traceback.extract_tb(e.__traceback__)
            where = next((f"{f.filename.rsplit('/', 1)[-1]}:{f.name}" for f in reversed(tb) if "/pynguin/" in f.filename), "?")
            probes["op_errors"] += 1
            violation = {"signature": f"{name}:raised-{type(e).__name__}@{where}",
                         "message": f"op #{n} {name} raised {type(e).__name__}: {e}\nbefore:\n{before}"}
            break
        after = a.test_case.to_code()
        if after != before:
            probes["ops_changed"] += 1
            changed_kinds.add(name)
        probes["max_size"] = max(probes["max_size"], a.test_case.size())
        hist.add(n, name, simkit.stable_hash(after))
        check(a, name, bound_after)
    if violation is None:
        # final oracle: no NameError / UnboundLocalError from test code
        for c in pool:
            if c.test_case.size() == 0:
                continue
            res = env.executor.execute(c.test_case)
            probes["executed"] += 1
            for posn, exc in res.exceptions.items():
                if isinstance(exc, (NameError, UnboundLocalError)):
                    violation = {"signature": f"execution:{type(exc).__name__}",
                                 "message": f"statement {posn} raised {exc!r}\n{c.test_case.to_code()}"}
                    break
            if violation:
                break
    return {
        "violation": violation,
        "digest": hist.digest(),
        "nontrivial": len(changed_kinds) >= 3 and probes["max_size"] >= 5,
        "probes": probes,
        "faults": {f"knob:{k}={v}": 1 for k, v in case["knobs"].items() if k.endswith(("max_recursion", "chromosome_length"))},
        "sim_ns": 0,
        "sample": {"module": case["module"], "knobs": case["knobs"], "ops": [o["op"] for o in case["ops"]][:20],
                   "changed_kinds": sorted(changed_kinds)} if case["run_seed"] % 97 == 0 else None,
        "executed_case": case,
    }


def minimise(case: dict, signature: str) -> dict:
    import sys

    from ..driver import default_minimise

    return default_minimise(sys.modules[__name__], case, signature, max_tests=25)
