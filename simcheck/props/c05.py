"""C05 Tracing keeps recording after an exception inside traced code (E2)."""

from __future__ import annotations

import os

from .. import simkit
from ..execsim import E2Env, result_signature
from ..simkit import Decisions, Streams

ID = "C05"
LEVEL = "fault_enumeration"
RULE = ("Each case = 3-8 seeded test cases over sut/raisers.py executed by the real TestCaseExecutor (worker thread "
        "under the time-driven baton scheduler). A head of 1-3 statements calls functions whose traced operator "
        "(<,<=,>,>=,==,!=,in,not in,truthiness; builtin incomparable operands or user operators) raises one of 6 "
        "exception types INSIDE the tracer callback, caught by the SUT (guarded, chained, nested) or escaping; a tail "
        "of 1-4 statements runs further branching code. Metric sets {BRANCH},{BRANCH,LINE},{LINE},{BRANCH,CHECKED} per "
        "case (under CHECKED, property getters and __getattr__ that raise are attribute-access callbacks). 35 % of the "
        "cases add an overlap scenario: an operator blocks (simulated sleep) inside the callback, the executor abandons "
        "the thread after the timeout, and a benign test case runs on the same executor while that thread is parked in "
        "the callback - it must see an enabled tracer at every statement and record what its clean reference records. "
        "Non-trivial = at least one exception actually propagated out of a tracer callback and tail statements ran; "
        "distinct = distinct digest of (test cases, results).")
ASSUMPTIONS = [
    "operators in the corpus raise as a function of the operand value only, so the uninstrumented module raises at "
    "the same operator (no instrumentation-induced exceptions are used as faults)",
    "line oracle is calibrated per process: lines that settrace reports but the fault-free references do not cover "
    "are excluded",
]
REAL = ["ExecutionTracer callbacks and distance helpers", "temporarily_disable/temporarily_enable",
        "TestCaseExecutor statement loop", "branch/line instrumentation of sut/raisers.py"]
STUBS = ["thread scheduling and clock (time-driven baton scheduler; single worker at a time)"]
MANIFEST = {
    "engine": "E2-executor",
    "technique": "deterministic simulation with fault injection: exceptions raised at seeded points inside tracer "
                 "callbacks of the real executor; per-statement state invariant + metamorphic clean-reference + "
                 "settrace line oracle",
    "text": "Fault enumeration over where an exception is raised inside a tracer callback (operator kind x exception "
            "type x guarded/chained/nested/escaping x position in the test case x metric set), on the real tracer and "
            "executor. Invariants checked after every statement (enabled state restored) and per test case (every "
            "tail line/branch of the clean reference is recorded; every executed instrumented line is covered).",
    "note": "Trusted: the harness ProbeExecutor subclass (samples is_disabled in the worker thread), sys.settrace line "
            "events as ground truth for executed lines, calibrated on fault-free runs.",
    "ref": "DESIGN.md §3 C05",
}
BUDGET = {
    "quick": {"runs": 640, "chunk": 40, "wall": 150, "chunk_timeout": 240},
    "thorough": {"runs": 16000, "chunk": 100, "wall": 1500, "chunk_timeout": 900},
}

_envs: dict = {}
_cur = [None]
_callback_exc = [0]
_wrapped = [False]
_last_cb = ["none"]
_cb_depth = [0]  # >0 while the (single) worker thread is inside a tracer callback
_METRICS = [("BRANCH",), ("BRANCH", "LINE"), ("LINE",), ("BRANCH", "CHECKED")]


def group_key(item):
    return item % 4 if isinstance(item, int) else -1


def _wrap_callbacks():
    if _wrapped[0]:
        return
    from pynguin.instrumentation.tracer import ExecutionTracer

    for name in ("executed_compare_predicate", "executed_bool_predicate", "executed_in_presence_predicate",
                 "executed_exception_match", "track_attribute_access"):
        orig = getattr(ExecutionTracer, name)

        def wrapper(self, *a, _VerifWrap__orig=orig, **k):
            __orig = _VerifWrap__orig
            _cb_depth[0] += 1
            try:
                return __orig(self, *a, **k)
            except Exception:
                _callback_exc[0] += 1
                _last_cb[0] = __orig.__name__
                raise
            finally:
                _cb_depth[0] -= 1

        setattr(ExecutionTracer, name, wrapper)
    _wrapped[0] = True


def get_env(midx: int) -> E2Env:
    if _cur[0] != midx:
        import pynguin.configuration as config

        # make sure pynguin is importable before touching config enums
        metrics = [getattr(config.CoverageMetric, m) for m in _METRICS[midx]]
        env = E2Env("raisers", statistics_output={"coverage_metrics": metrics})
        env.metrics = _METRICS[midx]
        env.excluded_lines = None
        _envs["env"] = env
        _cur[0] = midx
        _wrap_callbacks()
    return _envs["env"]


def setup_process():
    from .. import pyn

    pyn.import_pynguin()


# ---------------------------------------------------------------------------
# descriptors
# ---------------------------------------------------------------------------
def _lit(env, a, lines, n):
    v = f"var_{n[0]}"
    n[0] += 1
    if isinstance(a, list) and a and a[0] == "T":
        lines.append((f"{v} = {env.alias}.Touchy({a[1]!r}, {a[2]!r})", v, None))
    else:
        val = tuple(a[1:]) if isinstance(a, list) and a and a[0] == "tuple" else a
        lines.append((f"{v} = {val!r}", v, type(val)))
    return v


def build_tc(env, calls):
    from ..pyn import testcase

    lines: list = []
    n = [0]
    for call in calls:
        names = [_lit(env, a, lines, n) for a in call[1:]]
        v = f"var_{n[0]}"
        n[0] += 1
        lines.append((f"{v} = {env.alias}.{call[0]}({', '.join(names)})", v, None))
    return testcase(lines)


_CMP = ["guarded_lt", "guarded_le", "guarded_gt", "guarded_ge"]


def gen_fault_call(r):
    mode = r.randrange(0, 6)
    if r.random() < 0.3:
        # non-Exception signals raised by the operator, caught by `except BaseException`
        mode = 10 + r.randrange(0, 4)
        kk = r.randrange(0, 5)
        if kk == 0:
            return ["guarded_any_lt", ["T", -1, mode], r.choice([0, 5, "s"])]
        if kk == 1:
            return ["guarded_any_bool", ["T", -3, mode]]
        if kk == 2:
            return ["guarded_any_eq", ["T", -2, mode], r.choice([0, 5])]
        if kk == 3:
            return ["guarded_any_in", r.choice([1, "a"]), ["T", -4, mode]]
        return ["guarded_any_lt", r.choice([0, 5]), ["T", -1, mode]]
    if r.random() < 0.15:
        # truthy object whose __len__ raises: the tracer's own distance computation raises
        # after bool() succeeded (the exception reaches the SUT, which catches it)
        return [r.choice(["guarded_bool", "guarded_not", "guarded_any_bool"]), ["T", 55, mode]]
    if r.random() < 0.12:
        # attribute access that raises in a property getter / __getattr__ (a tracer callback under CHECKED coverage)
        return [r.choice(["guarded_attr", "guarded_ghost"]), r.choice([-6, -7, -6, -7, 3]), mode]
    k = r.randrange(0, 11)
    other = r.choice([0, 5, -7, "s", 2.5])
    if k == 0:  # builtin incomparable operands -> TypeError inside _lt/_le
        return [r.choice(_CMP), r.choice([1, 2.5, None]), r.choice(["x", "", [1]])]
    if k == 1:
        return [r.choice(_CMP), ["T", -1, mode], other]
    if k == 2:  # reflected operand: other < Touchy -> Touchy.__gt__
        return [r.choice(_CMP), r.choice([0, 5]), ["T", -1, mode]]
    if k == 3:
        return [r.choice(["guarded_eq", "guarded_ne"]), ["T", -2, mode], other]
    if k == 4:
        return [r.choice(["guarded_in", "guarded_not_in"]), r.choice([1, "a"]), ["T", -4, mode]]
    if k == 5:
        return [r.choice(["guarded_bool", "guarded_not"]), ["T", -3, mode]]
    if k == 6:
        ops = [["T", -1, mode], r.choice([1, 2, 3]), r.choice([1, 2, 3])]
        r.shuffle(ops)
        return ["guarded_chain", *ops]
    if k == 7:
        return ["nested", ["T", -1, mode], other, r.randrange(0, 4)]
    if k == 8:  # element of a container raises in == during `in`
        return [r.choice(["guarded_in", "guarded_not_in"]), r.choice([1, 3]), ["tuple", 0, 9]] \
            if r.random() < 0.3 else ["guarded_eq", other, ["T", -2, mode]]
    if k == 9:
        return ["unguarded_lt", ["T", -1, mode], other]
    return ["guarded_chain", r.choice([1, "a"]), r.choice(["b", 2]), ["T", -1, mode]]


def gen_benign_call(r):
    k = r.randrange(0, 8)
    if k == 0:
        return ["tail_num", r.choice([-3, 0, 4, 12, 13])]
    if k == 1:
        return ["tail_str", r.choice(["", "aeiou", "zzz", "pynguin", "z"])]
    if k == 2:
        return ["tail_pair", r.choice([None, 1, 5]), r.choice([None, 1, 2, 5])]
    if k == 3:
        return [r.choice(_CMP), r.randrange(0, 5), r.randrange(0, 5)]
    if k == 4:
        return ["guarded_chain", r.randrange(0, 4), r.randrange(0, 4), r.randrange(0, 4)]
    if k == 5:
        return [r.choice(["guarded_bool", "guarded_not"]), r.choice([0, 1, "", "x", ["T", 3, 0], ["T", 0, 0]])]
    if k == 6:
        return [r.choice(["guarded_in", "guarded_not_in"]), r.choice([1, 2]), ["tuple", 1, 3]]
    return ["nested", r.randrange(0, 4), r.randrange(0, 4), r.randrange(0, 3)]


def gen_case(run_seed: int, tier: str) -> dict:
    st = Streams(run_seed)
    r = st.get("ops")
    ops = []
    for _ in range(r.randrange(3, 9)):
        head = []
        for _ in range(r.randrange(1, 4)):
            head.append(gen_fault_call(r) if r.random() < 0.8 else gen_benign_call(r))
        tail = [gen_benign_call(r) for _ in range(r.randrange(1, 5))]
        ops.append({"head": head, "tail": tail})
    o = st.get("overlap")
    if o.random() < 0.35:
        # an operator that BLOCKS inside the tracer callback past the timeout: the thread is abandoned while it is
        # in the callback, and the next test case runs on the same executor while it is still parked there
        stall = o.choice([["guarded_lt", ["T", -1, 20], 3], ["guarded_eq", ["T", -2, 20], 1],
                          ["guarded_bool", ["T", -3, 20]], ["guarded_in", 1, ["T", -4, 20]]])
        ops.insert(o.randrange(len(ops) + 1), {"overlap": True, "head": [stall],
                                                "tail": [gen_benign_call(o) for _ in range(o.randrange(1, 4))]})
    return {"run_seed": run_seed, "knobs": {"metrics": run_seed % 4}, "ops": ops}


# ---------------------------------------------------------------------------
def _execute(env, tc, probe=True):
    clock, sch = env.new_sim(decisions=Decisions(None, {}), policy="time_driven", sut_line_cost_ns=1_000)
    ex = env.new_executor(1_000_000, 1_000_000, probe=probe)
    sch.line_log = []
    sch.line_filter = lambda: _cb_depth[0] == 0  # lines run by the callback's own operator calls are not "afterwards"
    _cb_depth[0] = 0
    with clock:
        res = env.execute_traced(sch, ex, tc)
        sch.mark_abandoned()
        killed = sch.shutdown()
    return res, ex, sch, killed


def _sut_lines(env, sch):
    path = os.path.join(str(simkit.SUT_DIR), "raisers.py")
    return {ln for fn, ln in sch.line_log if fn == path}


def _covered_linenos(env, res):
    ids = res.execution_trace.covered_line_ids
    return {env.props.existing_lines[i].line_number for i in ids}


def _calibrate(env):
    """Lines settrace reports on fault-free runs that line coverage does not record."""
    if env.excluded_lines is not None:
        return
    env.excluded_lines = set()
    if "LINE" not in env.metrics:
        return
    r = simkit.HRandom(12345)
    for _ in range(60):
        tc = build_tc(env, [gen_benign_call(r) for _ in range(3)])
        res, _ex, sch, _k = _execute(env, tc, probe=False)
        inst = {m.line_number for m in env.props.existing_lines.values()}
        env.excluded_lines |= (_sut_lines(env, sch) & inst) - _covered_linenos(env, res)


def _overlap(env, i, op, hist, probes):
    """Test A blocks inside a tracer callback and is abandoned after its timeout; test B (benign) then runs on the same
    executor and scheduler while A is still parked in the callback.  B must see an enabled tracer at every statement
    and must record everything its clean reference records."""
    from ..sched import SimOverrun

    clock, sch = env.new_sim(decisions=Decisions(None, {}), policy="time_driven", sut_line_cost_ns=1_000)
    ex = env.new_executor(2, 1, probe=True)
    tc_a = build_tc(env, op["head"])
    tc_b = build_tc(env, op["tail"])
    _cb_depth[0] = 0
    violation = None
    with clock:
        try:
            sch.watch_deadline = 600 * 10**9
            res_a = env.execute_traced(sch, ex, tc_a)
            sch.mark_abandoned()
            probes["overlap_first_test_timed_out"] = probes.get("overlap_first_test_timed_out", 0) + int(res_a.timeout)
            n0 = len(ex.samples)
            res_b = env.execute_traced(sch, ex, tc_b)
            sig = result_signature(res_b)
            hist.add("overlap", i, tc_a.to_code(), tc_b.to_code(), res_a.timeout, simkit.stable_hash(sig))
            probes["overlap_scenarios"] = probes.get("overlap_scenarios", 0) + 1
            if res_a.timeout and not sig["timeout"]:
                for k, (b, a, exc) in enumerate(ex.samples[n0:]):
                    if b or a:
                        violation = {"signature": "state:disabled-while-another-thread-is-parked-in-a-callback",
                                     "message": f"test #{i}: tracer is_disabled before/after statement #{k} of the test that "
                                                f"runs after an abandoned one = {b}/{a}\n{tc_b.to_code()}"}
                        break
                if violation is None and not sig["exceptions"]:
                    ref = env.reference(repr(op["tail"]), lambda: build_tc(env, op["tail"]))
                    lost = [f"{kk}-{sorted(set(ref[kk]) - set(sig[kk]))[:6]}" for kk in
                            ("lines", "code_objects", "pred_true", "pred_false") if set(ref[kk]) - set(sig[kk])]
                    if lost:
                        violation = {"signature": f"lost-after-abandoned-callback:{lost[0].split('-')[0]}",
                                     "message": f"test #{i}: the test that runs after a thread was abandoned inside a tracer "
                                                f"callback misses what its clean reference records: {lost}"}
        except SimOverrun as e:
            violation = {"signature": "overlap:no-return", "message": f"executor did not return: {e}"}
        finally:
            sch.watch_deadline = None
            sch.mark_abandoned()
            sch.shutdown()
    return violation


def run_case(case: dict) -> dict:
    env = get_env(case["knobs"]["metrics"])
    _calibrate(env)
    hist = simkit.History()
    violation = None
    probes = {"callback_exceptions": 0, "statements": 0, "tail_statements_run": 0, "escaped": 0,
              "tests_with_fault": 0, "line_oracle_lines": 0}
    executed = []
    instrumented = {m.line_number for m in env.props.existing_lines.values()}
    for i, op in enumerate(case["ops"]):
        if op.get("overlap"):
            violation = _overlap(env, i, op, hist, probes)
            if violation:
                break
            continue
        calls = op["head"] + op["tail"]
        tc = build_tc(env, calls)
        _callback_exc[0] = 0
        _last_cb[0] = "none"
        res, ex, sch, _k = _execute(env, tc)
        n_exc = _callback_exc[0]
        sig = result_signature(res)
        hist.add("tc", i, tc.to_code(), simkit.stable_hash(sig), n_exc)
        probes["callback_exceptions"] += n_exc
        probes["statements"] += len(ex.samples)
        probes["tests_with_fault"] += 1 if n_exc else 0
        executed.append({"code": tc.to_code().splitlines(), "callback_exceptions": n_exc,
                         "exceptions": sig["exceptions"]})
        if sig["timeout"]:
            violation = {"signature": "harness:timeout", "message": "unexpected timeout"}
            break
        # (1) enabled state preserved by every statement
        for k, (b, a, exc) in enumerate(ex.samples):
            if b or a:
                stmt = tc.get_statement(k).node
                import libcst as cst

                code = cst.Module(body=[stmt]).code.strip()
                fn = code.split(".", 1)[-1].split("(")[0] if "." in code else "literal"
                violation = {
                    "signature": f"state:disabled-after-statement:{_last_cb[0]}" if not b
                    else "state:disabled-before-statement",
                    "message": f"tracer is_disabled before/after statement #{k} of test #{i} = {b}/{a} "
                               f"(statement: {code}; raised: {exc})",
                }
                break
        if violation:
            break
        complete = not sig["exceptions"]
        if sig["exceptions"]:
            probes["escaped"] += 1
        # (2) metamorphic: the clean tail-only reference is contained in the faulted run
        if complete:
            probes["tail_statements_run"] += len(op["tail"])
            key = repr(op["tail"])
            ref = env.reference(key, lambda op=op: build_tc(env, op["tail"]))
            missing = []
            for kk in ("lines", "code_objects", "pred_true", "pred_false"):
                lost = set(ref[kk]) - set(sig[kk])
                if lost:
                    missing.append(f"{kk}-{sorted(lost)[:6]}")
            for pk, n in ref["pred_counts"].items():
                if sig["pred_counts"].get(pk, 0) < n:
                    missing.append(f"pred_count[{pk}]<{n}")
                    break
            if missing:
                violation = {
                    "signature": f"lost:{missing[0].split('-')[0].split('[')[0]}",
                    "message": f"test #{i}: items recorded by the clean tail-only run are missing after "
                               f"{n_exc} callback exception(s): {missing}",
                }
                break
        # (3) every executed instrumented line is covered (LINE metric)
        if "LINE" in env.metrics:
            actual = (_sut_lines(env, sch) & instrumented) - env.excluded_lines
            probes["line_oracle_lines"] += len(actual)
            lost = actual - _covered_linenos(env, res)
            if lost:
                violation = {
                    "signature": "lost:executed-line-not-covered",
                    "message": f"test #{i}: lines {sorted(lost)[:10]} of raisers.py were executed (settrace) but are "
                               f"not in covered_line_ids after {n_exc} callback exception(s)",
                }
                break
    return {
        "violation": violation,
        "digest": hist.digest(),
        "nontrivial": probes["callback_exceptions"] > 0 and probes["tail_statements_run"] > 0,
        "probes": probes,
        "faults": {"exception_inside_tracer_callback": probes["callback_exceptions"],
                   "exception_escaping_to_test": probes["escaped"]},
        "sim_ns": 0,
        "sample": {"metrics": env.metrics, "tests": executed[:2]} if case["run_seed"] % 11 == 0 else None,
        "executed_case": case,
    }
