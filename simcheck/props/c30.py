"""C30 Test executions are isolated and restore process state (E2)."""

from __future__ import annotations

import logging
import os
import sys

from .. import simkit
from ..execsim import E2Env, result_signature
from ..sched import SimDeadlock, SimOverrun
from ..simkit import Decisions, Streams

ID = "C30"
LEVEL = "exploration"
RULE = ("Each case = seeded sequence of 6-16 test cases over sut/chaos.py (print, raise incl. SystemExit/"
        "KeyboardInterrupt, close sys.stdout/sys.stderr, os.close(1/2), open(fd), replace sys.stdout, "
        "logging.disable/root level/handlers, random.seed/consume/new Random, module-global mutation (tagged "
        "stateful), instrumented infinite loop) executed with repetition by one long-lived real TestCaseExecutor "
        "under the baton scheduler (time-driven or adversarial). After every execute(): process-state snapshot "
        "must equal the snapshot before it, and non-stateful tests must reproduce their clean-reference result. "
        "Non-trivial = at least two different kinds of misbehaving test ran and a later non-stateful test was "
        "compared with its reference; distinct = distinct history digest.")
ASSUMPTIONS = [
    "the harness runs as a plain script, so sys.stdout is sys.__stdout__ at the start (restore() targets sys.__stdout__)",
    "the corpus never closes sys.__stdout__/sys.__stderr__ themselves and has no sleeping code, so every abandoned "
    "thread dies at its next tracer callback",
    "harness resets module counter, logging state and the shared null stream between cases (not between executions)",
]
REAL = ["TestCaseExecutor.execute/_execute_test_case", "OutputSuppressionContext (fds, sys.stdout)",
        "_make_deterministic / _patch_random", "ExecutionTracer", "instrumented sut/chaos.py", "real fds 0-2"]
STUBS = ["thread scheduling and clock (baton scheduler, SimClock)"]
MANIFEST = {
    "engine": "E2-executor",
    "technique": "deterministic simulation: seeded histories of misbehaving test cases on one long-lived real "
                 "executor under a seeded scheduler; process-state snapshot invariant after every execution + "
                 "clean-reference agreement",
    "text": "Seeded exploration of execution histories mixing tests that attack process-global state with ordinary "
            "ones, including timeouts whose threads are re-scheduled during later executions. Invariants after every "
            "execute(): std streams/fds, logging switches and Pynguin's RNG state unchanged; order-independence of "
            "non-stateful tests against a clean reference. Sampling, not enumeration.",
    "note": "Trusted: snapshot function (fstat of fds 0-2, logging.root state, RNG.getstate digest), baton scheduler; "
            "reference = first execution on a fresh executor in the same process.",
    "ref": "DESIGN.md §3 C30",
}
BUDGET = {
    "quick": {"runs": 1600, "chunk": 40, "wall": 150, "chunk_timeout": 240},
    "thorough": {"runs": 12000, "chunk": 40, "wall": 1500, "chunk_timeout": 900},
}

_env: E2Env | None = None
_stale = {"n": 0, "toctou": 0}
_base_log = {}
_cur_sch = [None]


def setup_process():
    global _env
    _env = E2Env("chaos")
    import threading

    from pynguin.instrumentation.tracer import ExecutionTracer

    orig_stop = ExecutionTracer.stop
    orig_exit = ExecutionTracer.__exit__
    main_ident = threading.main_thread().ident
    tl = threading.local()

    def probed_exit(self, *a):
        tl.in_exit = True
        tl.owner_at_exit = self._current_thread_identifier == threading.current_thread().ident
        try:
            return orig_exit(self, *a)
        finally:
            tl.in_exit = False

    def probed_stop(self):
        # stale stop: called by a thread that is neither the executor's (main) thread nor the current owner
        cur = self._current_thread_identifier
        me = threading.current_thread().ident
        if cur is not None and me != cur and me != main_ident:
            if getattr(tl, "in_exit", False) and tl.owner_at_exit:
                _stale["toctou"] += 1  # owned the tracer when __exit__ began, lost it before stop()
            else:
                _stale["n"] += 1
        return orig_stop(self)

    ExecutionTracer.__exit__ = probed_exit
    ExecutionTracer.stop = probed_stop

    # the moment the executor gives up on an execution: main thread calls restore() on its context
    from pynguin.testcase.execution_isolation import OutputSuppressionContext as OSC

    orig_restore = OSC.restore

    def probed_restore(self):
        if threading.current_thread().ident == main_ident and _cur_sch[0] is not None:
            _cur_sch[0].mark_abandoned()
        return orig_restore(self)

    OSC.restore = probed_restore
    _base_log.update(disable=logging.root.manager.disable, level=logging.root.level,
                     handlers=list(logging.root.handlers))


def reset_process_state():
    logging.disable(_base_log["disable"])
    logging.root.setLevel(_base_log["level"])
    logging.root.handlers[:] = _base_log["handlers"]
    if getattr(sys.__stdout__, "closed", False):
        sys.__stdout__ = open(1, "w", closefd=False)  # noqa: SIM115
    if getattr(sys.__stderr__, "closed", False):
        sys.__stderr__ = open(2, "w", closefd=False)  # noqa: SIM115
    sys.stdout = sys.__stdout__
    sys.stderr = sys.__stderr__
    mod = sys.modules.get("chaos")
    if mod is not None:
        mod._counter = 0
        import _random

        # module-level generators: put them into a fixed state without going through the
        # (Pynguin-patched) Random.seed, so a run never depends on the runs before it
        for name, sd in (("_DICE", 1234), ("_LOOSE", 4321)):
            g = getattr(mod, name, None)
            if g is not None:
                _random.Random.seed(g, sd)
                g.gauss_next = None
    from pynguin.testcase.execution_isolation import OutputSuppressionContext as OSC

    if OSC._null_file.closed:
        OSC._null_file = open(os.devnull, mode="w")  # noqa: SIM115


def snapshot() -> dict:
    from pynguin.utils import randomness

    fds = {}
    for fd in (0, 1, 2):
        try:
            st = os.fstat(fd)
            fds[fd] = (st.st_dev, st.st_ino, st.st_mode)
        except OSError:
            fds[fd] = None
    return {
        "stdout_is_orig": sys.stdout is sys.__stdout__,
        "stderr_is_orig": sys.stderr is sys.__stderr__,
        "stdout_closed": bool(getattr(sys.__stdout__, "closed", False)),
        "stderr_closed": bool(getattr(sys.__stderr__, "closed", False)),
        "fd0": fds[0], "fd1": fds[1], "fd2": fds[2],
        "logging_disable": logging.root.manager.disable,
        "root_level": logging.root.level,
        "root_handlers": len(logging.root.handlers),
        # what the switches mean to the loggers the module under test and the executor use (per-logger caches of
        # isEnabledFor must not outlive the state they were computed under)
        "loggers_enabled_for": tuple(
            logging.getLogger(name).isEnabledFor(level)
            for name in ("chaos", "chaos.noise", "pynguin.testcase.execution")
            for level in (logging.WARNING, logging.ERROR, logging.CRITICAL)),
        "pynguin_rng": simkit.stable_hash(repr(randomness.RNG.getstate())),
    }


# ---------------------------------------------------------------------------
_KINDS = {
    "shout": lambda r: [["shout", r.randrange(0, 5), r.choice(["out", "err"])]],
    "boom": lambda r: [["boom", r.randrange(0, 6)]],
    "close_stream": lambda r: [["close_stream", r.choice(["out", "err", "both"])]],
    "close_fd": lambda r: [["close_fd", r.choice([1, 2, 7])]],
    "open_fd": lambda r: [["open_fd_as_file", r.choice([1, 2])]],
    "replace_stream": lambda r: [["replace_stream", r.choice(["out", "err"])]],
    "print_after_close": lambda r: [["print_after_close", r.randrange(0, 3)]],
    "mute_logging": lambda r: [["mute_logging", r.choice([logging.CRITICAL, logging.ERROR, logging.WARNING])]],
    "root_level": lambda r: [["set_root_level", r.choice([logging.DEBUG, logging.ERROR])]],
    "root_handler": lambda r: [["add_root_handler", r.randrange(1, 3)]],
    "log_noise": lambda r: [["log_noise", r.randrange(1, 4)]],
    "reseed": lambda r: [["reseed", r.randrange(0, 50)]],
    "roll": lambda r: [["roll", r.randrange(1, 6)]],
    "new_rng": lambda r: [["new_rng", r.randrange(0, 9), r.randrange(0, 5)]],
    "unseeded_rng": lambda r: [["unseeded_rng", r.randrange(1, 5)]],
    "shuffle": lambda r: [["shuffle_and_pick", ["tuple", 3, 1, 2]]],
    "dice": lambda r: [["dice", r.randrange(1, 5)]],
    "loose_dice": lambda r: [["loose_dice", r.randrange(1, 4)]],
    "bump": lambda r: [["bump"]],
    "read_counter": lambda r: [["read_counter"]],
    "spin_inf": lambda r: [["spin", -1]],
    "plain": lambda r: [["plain", r.randrange(0, 4), r.randrange(0, 4)]],
}
_ATTACK = {"close_stream", "close_fd", "open_fd", "replace_stream", "print_after_close", "mute_logging",
           "root_level", "root_handler", "reseed", "boom", "spin_inf", "unseeded_rng"}
_VICTIMS = ["shout", "roll", "plain", "new_rng", "log_noise", "shuffle", "dice", "loose_dice", "dice"]


def gen_desc(r) -> dict:
    kind = r.choice(list(_KINDS))
    calls = _KINDS[kind](r)
    kinds = [kind]
    if r.random() < 0.35:  # multi-statement test: attack followed by a victim call in the same test
        k2 = r.choice(_VICTIMS)
        calls = calls + _KINDS[k2](r)
        kinds.append(k2)
    return {"kinds": kinds, "calls": calls}


def gen_case(run_seed: int, tier: str) -> dict:
    st = Streams(run_seed)
    r = st.get("ops")
    k = st.get("knobs")
    pool = [gen_desc(r) for _ in range(r.randrange(4, 9))]
    pool += [{"kinds": [v], "calls": _KINDS[v](r)} for v in r.sample(_VICTIMS, 2)]
    ops = [r.randrange(len(pool)) for _ in range(r.randrange(6, 17))]
    adversarial = k.random() < 0.35
    return {
        "run_seed": run_seed,
        "knobs": {
            "policy": "adversarial" if adversarial else "time_driven",
            "p_switch": k.choice([0.02, 0.08]),
            "max_starve": k.choice([30, 80]),
            "sut_line_cost_ms": k.choice([5, 20]),
            "max_timeout": k.choice([1, 2]),
            "p_stall": k.choice([0.0, 0.002, 0.01]),
        },
        "pool": pool,
        "ops": ops,
        "sched_seed": simkit.derive_seed(run_seed, "sched"),
    }


def build_tc(desc):
    from ..pyn import testcase

    m = _env.alias
    lines = []
    n = 0
    for call in desc["calls"]:
        names = []
        for a in call[1:]:
            v = f"var_{n}"
            n += 1
            val = tuple(a[1:]) if isinstance(a, list) and a and a[0] == "tuple" else a
            lines.append((f"{v} = {val!r}", v, type(val)))
            names.append(v)
        v = f"var_{n}"
        n += 1
        lines.append((f"{v} = {m}.{call[0]}({', '.join(names)})", v, None))
    return testcase(lines)


_STREAM_FUNCS = {"close_stream", "close_fd", "open_fd_as_file", "replace_stream", "print_after_close"}
_LOGGING_FUNCS = {"mute_logging", "set_root_level", "add_root_handler"}
_RANDOM_FUNCS = {"reseed", "roll", "shuffle_and_pick", "unseeded_rng", "new_rng", "dice", "loose_dice"}


def _attributable(diff_keys, abandoned_funcs) -> str | None:
    """Name the class of SUT code an abandoned thread ran in this window that explains the diff, if any."""
    classes = set()
    for k in diff_keys:
        if k.startswith(("fd", "stdout", "stderr")):
            classes.add("stream")
        elif k.startswith(("logging", "root_", "loggers_")):
            classes.add("logging")
        elif k == "random":
            classes.add("random")
        else:
            return None
    need = {"stream": _STREAM_FUNCS, "logging": _LOGGING_FUNCS, "random": _RANDOM_FUNCS}
    for c in classes:
        if not (abandoned_funcs & need[c]):
            return None
    return sorted(classes)[0]


def _stateful(desc) -> bool:
    return any(c[0] in ("bump", "read_counter") for c in desc["calls"])


def _nonterminating(desc) -> bool:
    return any(c[0] == "spin" and c[1] < 0 for c in desc["calls"])


def run_case(case: dict) -> dict:
    env = _env
    kn = case["knobs"]
    pool = case["pool"]
    # Pynguin re-seeds every random.Random instance it has ever seen (a WeakSet) before each execution, in traced
    # executor code: instances left over from earlier cases would make this case's simulated time depend on when
    # the garbage collector last ran
    import gc

    gc.collect()
    reset_process_state()
    refs = {}
    for idx in sorted(set(case["ops"])):
        d = pool[idx]
        if not _stateful(d) and not _nonterminating(d):
            reset_process_state()
            refs[idx] = env.reference(repr(d["calls"]), lambda d=d: build_tc(d))
    reset_process_state()
    dec = Decisions(simkit.HRandom(case["sched_seed"]), case.get("schedule"))
    clock, sch = env.new_sim(decisions=dec, policy=kn["policy"], p_switch=kn["p_switch"],
                             max_starve=kn["max_starve"], sut_line_cost_ns=kn["sut_line_cost_ms"] * 1_000_000)
    sch.p_stall = kn.get("p_stall", 0.0)
    sch.stall_ns = [int(f * kn["max_timeout"] * 1e9) for f in (0.3, 1.2, 3.0)]
    executor = env.new_executor(kn["max_timeout"], 1)
    violation = None
    probes = {"executions": 0, "timeouts": 0, "attacks": 0, "compared_with_reference": 0, "stale_tracer_exit": 0,
              "null_stream_closed_seen": 0, "starved_timeouts": 0}
    kinds_seen = set()
    executed = []
    _stale["n"] = 0
    _stale["toctou"] = 0
    from pynguin.testcase.execution_isolation import OutputSuppressionContext as OSC

    _cur_sch[0] = sch
    with clock:
        try:
            for i, idx in enumerate(case["ops"]):
                d = pool[idx]
                tc = build_tc(d)
                before = snapshot()
                stale0 = _stale["n"]
                toctou0 = _stale["toctou"]
                ab0 = sch.abandoned_yields
                sch.abandoned_funcs.clear()
                sch.watch_deadline = clock.ns + (2 * kn["max_timeout"] + 300) * 10**9
                try:
                    res = env.execute_traced(sch, executor, tc)
                except (SimOverrun, SimDeadlock) as e:
                    violation = {"signature": "liveness:execute-did-not-return",
                                 "message": f"execute() of test #{i} {d['kinds']} did not return ({e})"}
                    break
                except Exception as e:  # noqa: BLE001
                    import traceback

                    tb = traceback.extract_tb(e.__traceback__)
                    where = next((f"{f.filename.rsplit('/', 1)[-1]}:{f.name}" for f in reversed(tb)
                                  if "/pynguin/" in f.filename), "?")
                    violation = {"signature": f"raised:{type(e).__name__}@{where}",
                                 "message": f"execute() of test #{i} {d['kinds']} raised {type(e).__name__}: {e}"}
                    break
                after = snapshot()
                sig = result_signature(res)
                probes["executions"] += 1
                probes["timeouts"] += 1 if sig["timeout"] else 0
                kinds_seen.update(k for k in d["kinds"] if k in _ATTACK)
                probes["attacks"] += 1 if any(k in _ATTACK for k in d["kinds"]) else 0
                if OSC._null_file.closed:
                    probes["null_stream_closed_seen"] += 1
                sch.hist.add("res", i, idx, simkit.stable_hash(sig), sorted(k for k in before if before[k] != after[k]))
                executed.append({"kinds": d["kinds"], "timeout": sig["timeout"], "exceptions": sig["exceptions"]})
                diff = sorted(k for k in before if before[k] != after[k])
                if diff:
                    late = _attributable(diff, sch.abandoned_funcs)
                    violation = {
                        "signature": "state:abandoned-thread-ran" if late else "state:" + "+".join(diff),
                        "message": f"process state changed across execute() of test #{i} {d['kinds']}: "
                                   + ", ".join(f"{k}: {before[k]!r} -> {after[k]!r}" for k in diff)
                                   + (f" (a thread abandoned after a timeout ran {late}-related SUT code during "
                                      f"this execution: {sorted(sch.abandoned_funcs)})" if late else ""),
                    }
                    break
                if idx in refs:
                    ref = refs[idx]
                    if sig["timeout"] and not ref["timeout"]:
                        if _stale["n"] > stale0:
                            probes["stale_tracer_exit"] += 1
                            violation = {
                                "signature": "order:stale-tracer-exit-aborts-later-test",
                                "message": f"terminating test #{i} {d['kinds']} reported as timeout because an "
                                           f"abandoned earlier execution ran ExecutionTracer.__exit__ -> stop() "
                                           f"while this test was the current one",
                            }
                            break
                        if _stale["toctou"] > toctou0:
                            violation = {
                                "signature": "order:tracer-stop-after-ownership-check",
                                "message": f"terminating test #{i} {d['kinds']} reported as timeout: a thread that owned "
                                           f"the tracer when its ExecutionTracer.__exit__ began was stalled past "
                                           f"bound+grace before stop(), and stopped the tracer of this later test",
                            }
                            break
                        probes["starved_timeouts"] += 1  # own thread did not get enough simulated CPU: legal
                    elif not sig["timeout"]:
                        probes["compared_with_reference"] += 1
                        if sig != ref:
                            keys = sorted(k for k in sig if sig[k] != ref[k])
                            new_exc = sorted({v for k, v in sig["exceptions"].items()
                                              if ref["exceptions"].get(k) != v})
                            late = _attributable(["stdout_closed"] if new_exc else ["random"], sch.abandoned_funcs) \
                                or _attributable(["random"], sch.abandoned_funcs) \
                                or _attributable(["stdout_closed"], sch.abandoned_funcs)
                            violation = {
                                "signature": "order:abandoned-thread-ran" if late
                                else ("order:later-test-raises-" + new_exc[0]) if new_exc
                                else "order:result-differs",
                                "message": f"result of test #{i} {d['kinds']} differs from its clean reference in "
                                           f"{keys}: got {[sig[k] for k in keys]} expected {[ref[k] for k in keys]}; "
                                           f"earlier tests: {[pool[j]['kinds'] for j in case['ops'][:i]]}",
                            }
                            break
                sch.mark_abandoned()
        finally:
            sch.watch_deadline = None
            sch.shutdown()
            _cur_sch[0] = None
    reset_process_state()
    ex_case = dict(case)
    ex_case["schedule"] = dec.export()
    return {
        "violation": violation,
        "digest": sch.hist.digest(),
        "nontrivial": len(kinds_seen) >= 2 and probes["compared_with_reference"] > 0,
        "probes": probes,
        "faults": {f"attack:{k}": 1 for k in sorted(kinds_seen)} | {"timeout_fired": probes["timeouts"],
                                                                     "thread_stalled": sch.stalls},
        "sim_ns": clock.ns,
        "sample": {"knobs": kn, "executed": executed[:8]} if case["run_seed"] % 9 == 0 else None,
        "executed_case": ex_case,
    }


def normalise_case(case: dict) -> dict:
    return case
