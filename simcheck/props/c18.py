"""C18 Generated test files pass when run against the module under test (E1 + second party)."""

from __future__ import annotations

import os
import re
import subprocess
import sys
import xml.etree.ElementTree as ET

from .. import simkit
from ..pipeline import Monitor, gen_base_case, run_pipeline
from ..simkit import Streams

ID = "C18"
LEVEL = "exploration"
RULE = ("Each case = one whole simulated Pynguin run (5 corpus modules: numeric, string/enum, container/class-state, "
        "float-returning, class hierarchy; algorithms DYNAMOSA/MOSA/MIO/WHOLE_SUITE/RANDOM; assertion modes NONE/"
        "SIMPLE/MUTATION_ANALYSIS; no_xfail on/off; post-processing on/off) followed by a second party: the written "
        "file is run by pytest in a FRESH interpreter with a different PYTHONHASHSEED, another cwd and the "
        "uninstrumented module. Oracle from the junit report: every test passed or is a strict xfail that failed; no "
        "collection error, NameError or SyntaxError. Faults during the run: injected execution timeouts. "
        "Non-trivial = the file holds >= 2 tests and >= 1 assertion or raises/xfail wrapper; distinct = distinct file hash.")
ASSUMPTIONS = ["corpus modules are deterministic; the second party differs in hash seed, cwd, import order and "
               "instrumentation only"]
REAL = ["generator.run_pynguin end to end", "TestSuiteWriter, assertion_to_cst", "pytest as an independent second party"]
STUBS = ["time module / RNG object / thread scheduling inside the generating run (simulated)"]
MANIFEST = {
    "engine": "E1-pipeline",
    "technique": "deterministic simulation of whole generator runs followed by an independent replica (pytest in a "
                 "fresh interpreter under another hash seed) that must agree with the generator's verdicts",
    "text": "Seeded exploration over modules x algorithms x assertion modes; the emitted file is executed by a second "
            "party and every test must pass (or strictly xfail).",
    "note": "Trusted: pytest junit output; the second interpreter gets only PYTHONPATH=sut dir.",
    "ref": "DESIGN.md §3 C18",
}
BUDGET = {
    "quick": {"runs": 160, "chunk": 4, "wall": 170, "chunk_timeout": 400, "selfcheck": 8},
    "thorough": {"runs": 6000, "chunk": 8, "wall": 1700, "chunk_timeout": 800, "selfcheck": 32},
}
_ALGOS = ["DYNAMOSA", "MOSA", "MIO", "WHOLE_SUITE", "RANDOM"]


def gen_case(run_seed: int, tier: str) -> dict:
    st = Streams(run_seed)
    r, k, f = st.get("ops"), st.get("knobs"), st.get("faults")
    case = gen_base_case(run_seed, r, k, algorithms=_ALGOS)
    kn = case["knobs"]
    kn["iterations"] = k.choice([2, 4, 6])
    kn["assertions"] = k.choice(["NONE", "SIMPLE", "SIMPLE", "MUTATION_ANALYSIS"])
    kn["max_mutants"] = 15
    kn["no_xfail"] = k.random() < 0.3
    kn["post_process"] = k.random() < 0.8
    kn["min_strategy"] = k.choice(["CASE", "SUITE", "COMBINED", "NONE"])
    case["timeout_p"] = f.choice([0.0, 0.0, 0.05])
    case["pytest_hashseed"] = k.randrange(1, 100000)
    return case


_ASSIGN = re.compile(r"^\s*\w+\s*=\s*(?!=)")
KNOWN_MINIMIZE = "second-party:failure:AssertionError:minimization-removed-statement-on-asserted-object"


def _rhs(code: str) -> str:
    return _ASSIGN.sub("", code.strip(), count=1)


def _entries(t):
    import libcst as cst

    return [(cst.Module(body=[s.node]).code.strip(), s.bound_variable, set(s.used_variables())) for s in t.statements()]


class MinimizeRecorder(Monitor):
    """Records what generator._minimize removed from each test case (diagnosis only, no verdicts)."""

    def __init__(self):
        self.keep = []      # hold the TestCase objects so that ids stay unique
        self.before = {}    # id(test_case) -> entries before _minimize
        self.exported = []  # per exported test function: (id(test_case), entries before export)

    def before_minimize(self, run, suite):
        for c in suite.test_case_chromosomes:
            self.keep.append(c.test_case)
            self.before[id(c.test_case)] = _entries(c.test_case)

    def before_export(self, run, suite):
        self.exported = []
        for c in suite.test_case_chromosomes:
            self.keep.append(c.test_case)
            self.exported.append((id(c.test_case), _entries(c.test_case)))

    def removed_reader_of(self, test_index: int, failing_line: str):
        """Statements of test #test_index that _minimize removed although they read a variable the failing assertion
        (transitively) depends on - i.e. calls that may have changed the state of an asserted object."""
        if not 0 <= test_index < len(self.exported):
            return []
        tid, after = self.exported[test_index]
        pre = self.before.get(tid)
        if pre is None:
            return []
        left = {}
        for code, _b, _u in after:
            left[_rhs(code)] = left.get(_rhs(code), 0) + 1
        removed = []
        for code, b, u in pre:
            if left.get(_rhs(code), 0) > 0:
                left[_rhs(code)] -= 1
            else:
                removed.append((code, b, u))
        deps = set(re.findall(r"\bvar_\d+\b", failing_line))
        grew = bool(deps)
        while grew:
            grew = False
            for _code, b, u in pre:
                if b in deps and not u <= deps:
                    deps |= u
                    grew = True
        return [code for code, _b, u in removed if u & deps]


def run_case(case: dict) -> dict:
    rec = MinimizeRecorder()
    run, res = run_pipeline(case, [rec], keep_dir=True)
    try:
        violation = res["violation"]
        tests = passed = xfailed = 0
        n_assert = n_wrap = 0
        if violation is None and run.test_file:
            text = run.test_file.decode("utf-8", "replace")
            n_assert = len(re.findall(r"^\s+assert ", text, flags=re.M))
            n_wrap = len(re.findall(r"pytest\.raises|pytest\.mark\.xfail", text))
            workdir = os.path.join(run.out_dir, "second-party")
            os.makedirs(workdir, exist_ok=True)
            tf = os.path.join(workdir, f"test_{case['module']}.py")
            with open(tf, "wb") as fh:
                fh.write(run.test_file)
            junit = os.path.join(workdir, "junit.xml")
            env = {k: v for k, v in os.environ.items() if not k.startswith("PYTHON")}
            env.update(PYTHONHASHSEED=str(case["pytest_hashseed"]), PYTHONPATH=str(simkit.SUT_DIR),
                       PYTHONDONTWRITEBYTECODE="1")
            p = subprocess.run([sys.executable, "-m", "pytest", "-q", "-p", "no:cacheprovider", "-p", "no:randomly",
                                f"--junitxml={junit}", tf], cwd=workdir, env=env, capture_output=True, text=True,
                               timeout=300, check=False)
            if not os.path.exists(junit):
                violation = {"signature": "second-party:no-report",
                             "message": f"pytest produced no report (exit {p.returncode}):\n{(p.stdout + p.stderr)[-1500:]}"}
            else:
                root = ET.parse(junit).getroot()
                for tcase in root.iter("testcase"):
                    tests += 1
                    kinds = {ch.tag: ch for ch in tcase}
                    if "failure" in kinds or "error" in kinds:
                        ch = kinds.get("failure") if "failure" in kinds else kinds["error"]
                        msg = (ch.get("message") or "") + "\n" + (ch.text or "")
                        m = re.search(r"\b(NameError|SyntaxError|ImportError|ModuleNotFoundError|AttributeError|"
                                      r"TypeError|AssertionError|XPASS\(strict\)|Failed: DID NOT RAISE|ValueError|"
                                      r"KeyError|IndexError|ZeroDivisionError|OverflowError)", msg)
                        kind = m.group(1) if m else "other"
                        sig = f"second-party:{ch.tag}:{kind}"
                        note = ""
                        if sig == "second-party:failure:AssertionError":
                            # diagnosis for known_findings.json: was a statement that reads a variable feeding the
                            # failing assertion removed by generator._minimize (after the assertion was generated)?
                            fl = next((ln[1:].strip() for ln in msg.splitlines() if ln.startswith(">")), "")
                            tm = re.fullmatch(r"test_(\d+)", tcase.get("name") or "")
                            culprits = rec.removed_reader_of(int(tm.group(1)), fl) if tm and fl else []
                            if culprits:
                                sig = KNOWN_MINIMIZE
                                note = (f"failing assertion `{fl}` was generated before generator._minimize, which then "
                                        f"removed {culprits!r} from this test case\n")
                        if violation is None:
                            violation = {"signature": sig,
                                         "message": f"{tcase.get('name')} {ch.tag}: {note}{msg[-1200:]}\n--- file ---\n{text[-2500:]}"}
                    elif "skipped" in kinds:
                        if (kinds["skipped"].get("type") or "") == "pytest.xfail":
                            xfailed += 1
                        else:
                            violation = violation or {"signature": "second-party:skipped",
                                                      "message": f"{tcase.get('name')} skipped: {kinds['skipped'].get('message')}"}
                    else:
                        passed += 1
                if tests == 0 and violation is None and "def test_" in text:
                    violation = {"signature": "second-party:collected-nothing",
                                 "message": f"pytest collected no tests (exit {p.returncode}):\n{(p.stdout + p.stderr)[-1500:]}"}
        res["violation"] = violation
        res["nontrivial"] = tests >= 2 and (n_assert + n_wrap) >= 1
        res["digest"] = res["test_file_sha"] + ":" + res["digest"][:8]
        res["probes"].update(second_party_tests=tests, second_party_passed=passed, second_party_xfailed=xfailed,
                             assertions_in_file=n_assert, raises_or_xfail_in_file=n_wrap)
        res["faults"]["second_party_other_hashseed_and_cwd"] = 1
        if case["run_seed"] % 11 == 0:
            res["sample"] = {"module": case["module"], "algorithm": case["algorithm"], "knobs": case["knobs"],
                             "tests": tests, "passed": passed, "xfailed": xfailed, "asserts": n_assert}
        res["executed_case"] = case
        return res
    finally:
        run.cleanup()


def minimise(case: dict, signature: str) -> dict:
    import sys as _s

    from .c10 import _min_with

    return _min_with(_s.modules[__name__], case, signature)
