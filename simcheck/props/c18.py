"""C18 Generated test files pass when run against the module under test (E1 + second party)."""

from __future__ import annotations

import os
import re
import subprocess
import sys
import xml.etree.ElementTree as ET

from .. import simkit
from ..pipeline import Monitor, gen_base_case, run_pipeline
from ..simkit import Streams

ID = "C18"
LEVEL = "exploration"
RULE = ("Each case = one whole simulated Pynguin run (5 corpus modules: numeric, string/enum, container/class-state, "
        "float-returning, class hierarchy; algorithms DYNAMOSA/MOSA/MIO/WHOLE_SUITE/RANDOM; assertion modes NONE/"
        "SIMPLE/MUTATION_ANALYSIS; no_xfail on/off; post-processing on/off) followed by a second party: the written "
        "file is run by pytest in a FRESH interpreter with a different PYTHONHASHSEED, another cwd and the "
        "uninstrumented module. Oracle from the junit report: every test passed or is a strict xfail that failed; no "
        "collection error, NameError or SyntaxError. Faults during the run: injected execution timeouts. "
        "Diagnosis (changes only the signature of a failure): the suite as it was before generator._minimize is "
        "exported too; an AssertionError gets the known-finding signature only if the same assertion line is in the "
        "same test case of that un-minimised file, that test passes under pytest and _minimize removed statements "
        "from it. "
        "Non-trivial = the file holds >= 2 tests and >= 1 assertion or raises/xfail wrapper; distinct = distinct file hash.")
ASSUMPTIONS = ["corpus modules are deterministic; the second party differs in hash seed, cwd, import order and "
               "instrumentation only"]
REAL = ["generator.run_pynguin end to end", "TestSuiteWriter, assertion_to_cst", "pytest as an independent second party"]
STUBS = ["time module / RNG object / thread scheduling inside the generating run (simulated)"]
MANIFEST = {
    "engine": "E1-pipeline",
    "technique": "deterministic simulation of whole generator runs followed by an independent replica (pytest in a "
                 "fresh interpreter under another hash seed) that must agree with the generator's verdicts",
    "text": "Seeded exploration over modules x algorithms x assertion modes; the emitted file is executed by a second "
            "party and every test must pass (or strictly xfail).",
    "note": "Trusted: pytest junit output; the second interpreter gets only PYTHONPATH=sut dir.",
    "ref": "DESIGN.md §3 C18",
}
BUDGET = {
    "quick": {"runs": 160, "chunk": 4, "wall": 170, "chunk_timeout": 400, "selfcheck": 8},
    "thorough": {"runs": 6000, "chunk": 8, "wall": 1700, "chunk_timeout": 800, "selfcheck": 32},
}
_ALGOS = ["DYNAMOSA", "MOSA", "MIO", "WHOLE_SUITE", "RANDOM"]
# the six general corpus modules plus the export-shape module (enums, __all__, custom exceptions, SystemExit,
# Fraction/Decimal/date results, bytes, nested containers, values that flip back, dependency chains)
_MODULES = ["tiny", "words", "shapes", "floats", "zoo", "plain", "gallery", "gallery", "gallery"]


def gen_case(run_seed: int, tier: str) -> dict:
    st = Streams(run_seed)
    r, k, f = st.get("ops"), st.get("knobs"), st.get("faults")
    case = gen_base_case(run_seed, r, k, algorithms=_ALGOS, modules=_MODULES)
    kn = case["knobs"]
    kn["iterations"] = k.choice([2, 4, 6])
    kn["assertions"] = k.choice(["NONE", "SIMPLE", "SIMPLE", "MUTATION_ANALYSIS"])
    kn["max_mutants"] = 15
    kn["no_xfail"] = k.random() < 0.3
    kn["post_process"] = k.random() < 0.8
    kn["min_strategy"] = k.choice(["CASE", "SUITE", "COMBINED", "NONE"])
    case["timeout_p"] = f.choice([0.0, 0.0, 0.05])
    case["pytest_hashseed"] = k.randrange(1, 100000)
    return case


_ASSIGN = re.compile(r"^\s*\w+\s*=\s*(?!=)")
KNOWN_MINIMIZE = "second-party:failure:AssertionError:assertion-held-before-minimization"


def _rhs(code: str) -> str:
    return _ASSIGN.sub("", code.strip(), count=1)


def _entries(t):
    import libcst as cst

    return [(cst.Module(body=[s.node]).code.strip(), s.bound_variable, set(s.used_variables())) for s in t.statements()]


class MinimizeRecorder(Monitor):
    """Diagnosis only (no verdicts): keeps the suite as it was before generator._minimize and has the real exporter
    write it too, so that a failing exported assertion can be replayed against the un-minimised test case."""

    def __init__(self):
        self.keep = []        # hold the TestCase objects so that ids stay unique
        self.pre_ids = []     # id(test_case) per test case, suite order before _minimize
        self.before = {}      # id(test_case) -> entries before _minimize
        self.pre_clone = None
        self.pre_file = None  # the un-minimised suite as written by TestSuiteWriter
        self.exported = []    # per exported test function: (id(test_case), entries before export)
        self._busy = False

    def before_minimize(self, run, suite):
        self.pre_clone = suite.clone()
        for c in suite.test_case_chromosomes:
            self.keep.append(c.test_case)
            self.pre_ids.append(id(c.test_case))
            self.before[id(c.test_case)] = _entries(c.test_case)

    def before_export(self, run, suite):
        if self._busy:
            return
        self.exported = []
        for c in suite.test_case_chromosomes:
            self.keep.append(c.test_case)
            self.exported.append((id(c.test_case), _entries(c.test_case)))
        if self.pre_clone is None or not any(self.removed_from(k) for k in range(len(self.exported))):
            return
        import pynguin.generator as gen

        self._busy = True
        try:
            gen._export_chromosome(self.pre_clone, sut_uses_random=False,
                                   subject_properties=run.executor.subject_properties)
            tf = os.path.join(run.out_dir, f"test_{run.case['module']}.py")
            with open(tf, "rb") as fh:
                self.pre_file = fh.read()
            os.remove(tf)
            run.probe("unminimised_suite_exported")
        except Exception:  # noqa: BLE001 - diagnosis unavailable: every failure keeps its generic signature
            self.pre_file = None
        finally:
            self._busy = False

    def removed_from(self, test_index: int) -> list[str]:
        """Statements generator._minimize removed from the test case exported as test_<test_index>."""
        if not 0 <= test_index < len(self.exported):
            return []
        tid, after = self.exported[test_index]
        pre = self.before.get(tid)
        if pre is None:
            return []
        left: dict[str, int] = {}
        for code, _b, _u in after:
            left[_rhs(code)] = left.get(_rhs(code), 0) + 1
        removed = []
        for code, _b, _u in pre:
            if left.get(_rhs(code), 0) > 0:
                left[_rhs(code)] -= 1
            else:
                removed.append(code)
        return removed

    def held_before_minimization(self, test_index: int, failing_line: str, workdir: str, env: dict, module: str):
        """(True, removed statements) iff the failing assertion line is part of the same test case in the
        un-minimised suite, that test PASSES under pytest, and _minimize removed statements from it."""
        removed = self.removed_from(test_index)
        if not removed or not self.pre_file or not failing_line:
            return False, removed
        tid = self.exported[test_index][0]
        if tid not in self.pre_ids:
            return False, removed
        j = self.pre_ids.index(tid)
        text = self.pre_file.decode("utf-8", "replace")
        m = re.search(rf"^def test_{j}\(\):\n((?:    .*\n|\n)*)", text, flags=re.M)
        if not m or failing_line not in [ln.strip() for ln in m.group(1).splitlines()]:
            return False, removed
        d = os.path.join(workdir, "unminimised")
        os.makedirs(d, exist_ok=True)
        tf = os.path.join(d, f"test_{module}.py")
        with open(tf, "wb") as fh:
            fh.write(self.pre_file)
        junit = os.path.join(d, "junit.xml")
        subprocess.run([sys.executable, "-m", "pytest", "-q", "-p", "no:cacheprovider", "-p", "no:randomly",
                        f"--junitxml={junit}", f"{tf}::test_{j}"], cwd=d, env=env, capture_output=True, text=True,
                       timeout=300, check=False)
        if not os.path.exists(junit):
            return False, removed
        cases = list(ET.parse(junit).getroot().iter("testcase"))
        ok = len(cases) == 1 and not any(ch.tag in ("failure", "error", "skipped") for ch in cases[0])
        return ok, removed


def run_case(case: dict) -> dict:
    rec = MinimizeRecorder()
    run, res = run_pipeline(case, [rec], keep_dir=True)
    try:
        violation = res["violation"]
        tests = passed = xfailed = 0
        n_assert = n_wrap = 0
        if violation is None and run.test_file:
            text = run.test_file.decode("utf-8", "replace")
            n_assert = len(re.findall(r"^\s+assert ", text, flags=re.M))
            n_wrap = len(re.findall(r"pytest\.raises|pytest\.mark\.xfail", text))
            workdir = os.path.join(run.out_dir, "second-party")
            os.makedirs(workdir, exist_ok=True)
            tf = os.path.join(workdir, f"test_{case['module']}.py")
            with open(tf, "wb") as fh:
                fh.write(run.test_file)
            junit = os.path.join(workdir, "junit.xml")
            env = {k: v for k, v in os.environ.items() if not k.startswith("PYTHON")}
            env.update(PYTHONHASHSEED=str(case["pytest_hashseed"]), PYTHONPATH=str(simkit.SUT_DIR),
                       PYTHONDONTWRITEBYTECODE="1")
            p = subprocess.run([sys.executable, "-m", "pytest", "-q", "-p", "no:cacheprovider", "-p", "no:randomly",
                                f"--junitxml={junit}", tf], cwd=workdir, env=env, capture_output=True, text=True,
                               timeout=300, check=False)
            if not os.path.exists(junit):
                violation = {"signature": "second-party:no-report",
                             "message": f"pytest produced no report (exit {p.returncode}):\n{(p.stdout + p.stderr)[-1500:]}"}
            else:
                root = ET.parse(junit).getroot()
                for tcase in root.iter("testcase"):
                    tests += 1
                    kinds = {ch.tag: ch for ch in tcase}
                    if "failure" in kinds or "error" in kinds:
                        ch = kinds.get("failure") if "failure" in kinds else kinds["error"]
                        msg = (ch.get("message") or "") + "\n" + (ch.text or "")
                        m = re.search(r"\b(NameError|SyntaxError|ImportError|ModuleNotFoundError|AttributeError|"
                                      r"TypeError|AssertionError|XPASS\(strict\)|Failed: DID NOT RAISE|ValueError|"
                                      r"KeyError|IndexError|ZeroDivisionError|OverflowError)", msg)
                        kind = m.group(1) if m else "other"
                        sig = f"second-party:{ch.tag}:{kind}"
                        note = ""
                        if sig == "second-party:failure:AssertionError":
                            # diagnosis for known_findings.json: does the very same assertion hold in the same test
                            # case of the un-minimised suite (replayed under pytest), i.e. did _minimize break it?
                            fl = next((ln[1:].strip() for ln in msg.splitlines() if ln.startswith(">")), "")
                            tm = re.fullmatch(r"test_(\d+)", tcase.get("name") or "")
                            try:
                                held, removed = (rec.held_before_minimization(int(tm.group(1)), fl, workdir, env,
                                                                              case["module"]) if tm else (False, []))
                            except Exception:  # noqa: BLE001 - no proof, so the failure keeps its generic signature
                                held, removed = False, []
                            if held:
                                sig = KNOWN_MINIMIZE
                                note = (f"`{fl}` is in the same test case of the un-minimised suite, which PASSES under "
                                        f"pytest; generator._minimize then removed {removed!r} from it\n")
                        # a failure without a proven known cause must never hide behind one that has it
                        if violation is None or (violation["signature"] == KNOWN_MINIMIZE and sig != KNOWN_MINIMIZE):
                            violation = {"signature": sig,
                                         "message": f"{tcase.get('name')} {ch.tag}: {note}{msg[-1200:]}\n--- file ---\n{text[-2500:]}"}
                    elif "skipped" in kinds:
                        if (kinds["skipped"].get("type") or "") == "pytest.xfail":
                            xfailed += 1
                        else:
                            violation = violation or {"signature": "second-party:skipped",
                                                      "message": f"{tcase.get('name')} skipped: {kinds['skipped'].get('message')}"}
                    else:
                        passed += 1
                if tests == 0 and violation is None and "def test_" in text:
                    violation = {"signature": "second-party:collected-nothing",
                                 "message": f"pytest collected no tests (exit {p.returncode}):\n{(p.stdout + p.stderr)[-1500:]}"}
        res["violation"] = violation
        res["nontrivial"] = tests >= 2 and (n_assert + n_wrap) >= 1
        res["digest"] = res["test_file_sha"] + ":" + res["digest"][:8]
        res["probes"].update(second_party_tests=tests, second_party_passed=passed, second_party_xfailed=xfailed,
                             assertions_in_file=n_assert, raises_or_xfail_in_file=n_wrap)
        res["faults"]["second_party_other_hashseed_and_cwd"] = 1
        if case["run_seed"] % 11 == 0:
            res["sample"] = {"module": case["module"], "algorithm": case["algorithm"], "knobs": case["knobs"],
                             "tests": tests, "passed": passed, "xfailed": xfailed, "asserts": n_assert}
        res["executed_case"] = case
        return res
    finally:
        run.cleanup()


def minimise(case: dict, signature: str) -> dict:
    import sys as _s

    from .c10 import _min_with

    return _min_with(_s.modules[__name__], case, signature)
