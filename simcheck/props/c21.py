"""C21 Kept assertions hold on the original module and preserve mutant kills (E1 monitor)."""

from __future__ import annotations

from ..pipeline import Monitor, gen_base_case, run_pipeline
from ..simkit import Streams

ID = "C21"
LEVEL = "exploration"
RULE = ("Each case = one whole simulated Pynguin run with assertion generation MUTATION_ANALYSIS (first- and "
        "higher-order strategies, with/without assertion minimisation, with/without a mutation time budget in simulated "
        "seconds) or SIMPLE on a corpus module - the six general ones plus wide (statements with > 16 assertions, "
        "kill maps with assertion index >= 16), loops (mutants that are killed by one test and hang in a later one) and "
        "flaky (a process-wide counter and attributes that exist on one object only, so the filtering re-execution "
        "sees failing AND erroring assertions on one statement). (1) After assertion generation every test case is "
        "re-executed TWICE on the unmutated module with Pynguin's verification observer on a private executor: no "
        "assertion may fail or error. "
        "(2) Every real call of _select_minimal_assertions is checked: selection subset of candidates and "
        "kills(selection) == kills(all); every assertion-minimization call is bracketed with reference kill sets built "
        "from the raw verification traces (an assertion kills a mutant if it failed OR errored on it) - the assertions "
        "kept must kill every mutant the generated ones kill. (3) The mutation summary is recomputed from the raw "
        "per-test/per-mutant results by a reference and the reported score must equal killed/(mutants - timed out - "
        "never executed), lie in [0,1]. Looping "
        "mutants time out in virtual time (simulated clock), so the timeout clause is exercised without waiting. "
        "Non-trivial = >= 2 assertions survived and (>= 2 mutants with a kill map of >= 2 assertions, or SIMPLE mode); "
        "distinct = distinct run digest.")
ASSUMPTIONS = ["corpus modules are deterministic; the private executor uses its own ModuleProvider (never a mutant)"]
REAL = ["AssertionGenerator / MutationAnalysisAssertionGenerator", "mutation operators and controller",
        "RemoteAssertionTraceObserver / RemoteAssertionVerificationObserver", "_select_minimal_assertions", "_MutationMetrics"]
STUBS = ["time module (SimClock)", "randomness.RNG (instrumented)", "thread scheduling", "assertion filtering subprocess disabled"]
MANIFEST = {
    "engine": "E1-pipeline",
    "technique": "deterministic simulation of whole generator runs with mutation analysis on a simulated clock (mutant "
                 "timeouts fire in virtual time); re-execution oracle for kept assertions, operation-level check of "
                 "every real set-cover selection, reference recomputation of the mutation score",
    "text": "Seeded exploration over modules x mutation strategies x minimisation modes; invariants on the live kill "
            "maps and summaries the runs produce, plus re-execution of the final assertions on the unmutated module.",
    "note": "Trusted: Pynguin's own verification observer as the evaluator of an assertion; reference summary in this file.",
    "ref": "DESIGN.md §3 C21",
}
BUDGET = {
    "quick": {"runs": 160, "chunk": 4, "wall": 170, "chunk_timeout": 500, "selfcheck": 8},
    "thorough": {"runs": 6000, "chunk": 8, "wall": 1700, "chunk_timeout": 900, "selfcheck": 32},
}
_ALGOS = ["DYNAMOSA", "MOSA", "WHOLE_SUITE", "RANDOM"]
# corpus + modules whose shapes the assertion machinery has special paths for: statements with > 16 assertions (wide),
# mutants that are killed by one test and hang in a later one (loops), behaviour that changes between any two
# consecutive executions so that the filtering re-execution sees failing AND erroring assertions (flaky)
_MODULES = ["tiny", "words", "shapes", "floats", "zoo", "plain", "wide", "wide", "loops", "loops", "flaky"]
_STRATS = ["FIRST_ORDER_MUTANTS", "FIRST_ORDER_MUTANTS", "FIRST_TO_LAST", "BETWEEN_OPERATORS", "RANDOM", "EACH_CHOICE"]


def gen_case(run_seed: int, tier: str) -> dict:
    st = Streams(run_seed)
    r, k, f = st.get("ops"), st.get("knobs"), st.get("faults")
    case = gen_base_case(run_seed, r, k, algorithms=_ALGOS, modules=_MODULES)
    kn = case["knobs"]
    kn["iterations"] = k.choice([2, 3])
    kn["population"] = k.choice([4, 6])
    kn["assertions"] = k.choice(["MUTATION_ANALYSIS", "MUTATION_ANALYSIS", "MUTATION_ANALYSIS", "SIMPLE"])
    kn["mutation_strategy"] = k.choice(_STRATS)
    kn["mutation_order"] = 1 if kn["mutation_strategy"] == "FIRST_ORDER_MUTANTS" else k.choice([2, 3])
    kn["max_mutants"] = k.choice([10, 25])
    kn["assertion_minimization"] = k.random() < 0.6
    kn["exec_timeout"] = k.choice([1, 2])
    case["timeout_p"] = 0.0
    if case["module"] == "loops":
        # hanging mutants are the point here: make a simulated second cheap (1 ms per traced line) so that a timed-out
        # mutant execution costs ~10^3 steps instead of ~10^5, and give the unmutated loops room
        case["line_cost_ns"] = 1_000_000
        kn["exec_timeout"] = k.choice([2, 3])
        kn["max_mutants"] = 10
    return case


class KillMonitor(Monitor):
    def __init__(self):
        self.selections = 0
        self.rich_selections = 0
        self.kept_assertions = 0
        self.mutants = 0
        self.timeouts = 0
        self.score = None
        self.killed_then_timeout = 0
        self.ref_kill_maps = 0
        self.unchecked = 0
        self.filter_statements_with_failed_and_error = 0
        self.max_assertions_on_one_statement = 0
        self.widest_kill_index = 0

    def on_setup(self, run):
        import pynguin.assertion.assertiongenerator as ag

        mon = self
        orig_sel = ag._select_minimal_assertions

        def sel(kill_map):
            keep = orig_sel(kill_map)
            mon.selections += 1
            for key, kills in kill_map.items():
                if kills and key[1] > mon.widest_kill_index:
                    mon.widest_kill_index = key[1]
            cands = {k for k, v in kill_map.items() if v}
            if len(cands) >= 2 and len(set().union(*kill_map.values())) >= 2:
                mon.rich_selections += 1
            if not keep <= cands:
                run.violate("selection:not-subset", f"selected {sorted(keep - cands)} which kill nothing / are unknown")
            all_k = set().union(*kill_map.values()) if kill_map else set()
            kept_k = set().union(*(kill_map[k] for k in keep)) if keep else set()
            if kept_k != all_k:
                run.violate("selection:loses-kills", f"full set kills {sorted(all_k)}, selection kills {sorted(kept_k)}; "
                                                     f"kill map {dict((str(k), sorted(v)) for k, v in kill_map.items())}")
            return keep

        run.patch(ag, "_select_minimal_assertions", sel)
        base_cls = ag.AssertionGenerator
        rn = "_AssertionGenerator__remove_non_holding_assertions"
        orig_rn = getattr(base_cls, rn)

        def remove_non_holding(test, result):
            vt = result.assertion_verification_trace
            both = [i for i in vt.failed if vt.failed[i] and vt.error.get(i)]
            if both:
                mon.filter_statements_with_failed_and_error += len(both)
            return orig_rn(test, result)

        run.patch(base_cls, rn, staticmethod(remove_non_holding))
        cls = ag.MutationAnalysisAssertionGenerator
        mn = "_MutationAnalysisAssertionGenerator__minimize_assertions"
        orig_min = getattr(cls, mn)

        def minimize_assertions(test_cases, tests_mutants_results, mutation_summary):
            # reference kill sets straight from the raw verification traces (failed AND errored assertions count,
            # timed-out mutants do not), keyed by the assertion OBJECT so that they survive the removal of others
            timed_out = {i for i, info in enumerate(mutation_summary.mutant_information) if info.timed_out_by}
            before = []
            for test, results in zip(test_cases, tests_mutants_results):
                kills = {}
                for si, st_ in enumerate(test.statements()):
                    if st_.has_only_exception_assertion():
                        continue
                    for ai, a in enumerate(st_.assertions):
                        ks = set()
                        for m_idx, res in enumerate(results):
                            if res is None or m_idx in timed_out:
                                continue
                            vt = res.assertion_verification_trace
                            if ai in vt.failed.get(si, ()) or ai in vt.error.get(si, ()):
                                ks.add(m_idx)
                        kills[id(a)] = (a, ks)
                before.append(kills)
            orig_min(test_cases, tests_mutants_results, mutation_summary)
            for t_idx, (test, kills) in enumerate(zip(test_cases, before)):
                all_k = set().union(*(ks for _a, ks in kills.values())) if kills else set()
                kept_ids = {id(a) for st_ in test.statements() for a in st_.assertions}
                kept_k = set().union(*(ks for i_, (_a, ks) in kills.items() if i_ in kept_ids)) if kills else set()
                if all_k:
                    mon.ref_kill_maps += 1
                if kept_k != all_k:
                    lost = sorted(all_k - kept_k)
                    culprit = next((repr(a) for a, ks in kills.values() if ks & set(lost)), "?")
                    run.violate("minimization:loses-kills",
                                f"test #{t_idx}: the assertions generated for it kill mutants {sorted(all_k)} (failed or "
                                f"errored on the mutant, per the raw verification traces); after assertion minimization "
                                f"the kept ones kill only {sorted(kept_k)} - lost {lost}, e.g. through {culprit}")
                    return

        run.patch(cls, mn, staticmethod(minimize_assertions))
        name = "_MutationAnalysisAssertionGenerator__compute_mutation_summary"
        orig_cms = getattr(cls, name)

        def cms(number_of_mutants, tests_mutants_results):
            summary = orig_cms(number_of_mutants, tests_mutants_results)
            killed = timed = unchecked = 0
            for m in range(number_of_mutants):
                state = "survived"
                column = [per_test[m] if m < len(per_test) else None for per_test in tests_mutants_results]
                if tests_mutants_results and all(r is None for r in column):
                    unchecked += 1  # never executed by any test (e.g. the mutated module does not import)
                    continue
                for res in column:
                    if res is None:
                        continue
                    if res.timeout:
                        if state == "killed":
                            mon.killed_then_timeout += 1
                        state = "timeout"
                        break
                    tr = res.assertion_verification_trace
                    if len(tr.error) > 0 or len(tr.failed) > 0 or res.has_test_exceptions():
                        state = "killed"
                if state == "timeout":
                    timed += 1
                elif state == "killed":
                    killed += 1
            mon.unchecked += unchecked
            div = number_of_mutants - timed - unchecked
            ref = 1.0 if div == 0 else killed / div
            score = summary.get_metrics().get_score()
            mon.mutants += number_of_mutants
            mon.timeouts += timed
            mon.score = score
            run.hist.add("mut", number_of_mutants, killed, timed, round(score, 6))
            if not (0.0 <= score <= 1.0):
                run.violate("score:out-of-range", f"mutation score {score!r}")
            elif abs(score - ref) > 1e-12:
                run.violate("score:differs-from-reference",
                            f"reported score {score!r}, reference killed/(mutants - timed out - never executed) = {killed}/"
                            f"({number_of_mutants}-{timed}-{unchecked}) = {ref!r}")
            return summary

        run.patch(cls, name, staticmethod(cms))

    def after_assertions(self, run, suite):
        from pynguin.assertion.assertiontraceobserver import RemoteAssertionVerificationObserver

        priv = run.private_executor()
        priv.add_remote_observer(RemoteAssertionVerificationObserver())
        for idx, chrom in enumerate(suite.test_case_chromosomes):
            t = chrom.test_case
            n = sum(len(s.assertions) for s in t.statements())
            self.kept_assertions += n
            if n == 0:
                continue
            self.max_assertions_on_one_statement = max([self.max_assertions_on_one_statement] +
                                                       [len(s.assertions) for s in t.statements()])
            bad = []
            timed_out = False
            for _rep in range(2):  # twice: what differs between two consecutive executions must already be gone
                res = priv.execute(t)
                tr = res.assertion_verification_trace
                bad += [(pos, sorted(v), "failed") for pos, v in tr.failed.items() if v] + \
                       [(pos, sorted(v), "error") for pos, v in tr.error.items() if v]
                timed_out = timed_out or res.timeout
            if timed_out:
                run.probe("verification_timeout")
                continue
            if bad:
                pos, idxs, kind = bad[0]
                stmt = t.get_statement(pos) if pos < t.size() else None
                a = stmt.assertions[idxs[0]] if stmt is not None and idxs[0] < len(stmt.assertions) else None
                run.violate(f"assertion-does-not-hold:{kind}:{type(a).__name__}",
                            f"test #{idx} statement {pos}: assertion {a!r} {kind} on the unmutated module\n{t.to_code()}")
                return


def run_case(case: dict) -> dict:
    mon = KillMonitor()
    run, res = run_pipeline(case, [mon])
    simple = case["knobs"]["assertions"] == "SIMPLE"
    res["nontrivial"] = mon.kept_assertions >= 2 and (simple or mon.rich_selections >= 1 or mon.mutants >= 2)
    res["probes"].update(minimal_selection_calls=mon.selections, selections_with_2plus_assertions_and_mutants=mon.rich_selections,
                         assertions_kept=mon.kept_assertions, mutants_checked=mon.mutants, mutants_timed_out=mon.timeouts,
                         mutants_killed_then_timed_out=mon.killed_then_timeout,
                         minimizations_checked_against_reference_kill_sets=mon.ref_kill_maps,
                         mutants_never_executed=mon.unchecked,
                         filter_statements_with_failed_and_error=mon.filter_statements_with_failed_and_error,
                         runs_with_statement_of_17plus_assertions=int(mon.max_assertions_on_one_statement >= 17),
                         runs_with_kill_at_assertion_index_16plus=int(mon.widest_kill_index >= 16))
    res["faults"]["mutant_timeout_in_virtual_time"] = mon.timeouts
    if case["run_seed"] % 7 == 0:
        res["sample"] = {"module": case["module"], "algorithm": case["algorithm"], "knobs": case["knobs"],
                         "mutants": mon.mutants, "timeouts": mon.timeouts, "score": mon.score,
                         "assertions_kept": mon.kept_assertions}
    res["executed_case"] = case
    return res


def minimise(case: dict, signature: str) -> dict:
    import sys

    from .c10 import _min_with

    return _min_with(sys.modules[__name__], case, signature)
