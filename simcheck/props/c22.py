"""C22 Minimization never reduces coverage (E1 monitor)."""

from __future__ import annotations

import math
import re

from ..pipeline import Monitor, gen_base_case, run_pipeline
from ..simkit import Streams

ID = "C22"
LEVEL = "exploration"
RULE = ("Each case = one whole simulated Pynguin run on a corpus module with minimisation strategy in {CASE, SUITE, "
        "COMBINED, NONE} x direction {FORWARD, BACKWARD}, assertion modes NONE/SIMPLE, metrics BRANCH or BRANCH+LINE. "
        "The suite is cloned immediately before generator._minimize; afterwards both suites are re-executed on a "
        "private executor: coverage for every optimised coverage function must be equal (fault-free configuration, "
        "strict), every minimised test case must be a subsequence of an original one (modulo `x = e` -> `e`), and "
        "every statement whose variable an assertion refers to survives in the test cases that survive. A separate "
        "fault configuration injects content-keyed execution timeouts during the run (and thus during minimisation) "
        "to drive the 'coverage changed => restore' path; there the oracle is relaxed to: final coverage >= the "
        "coverage the run itself measured before minimisation. Non-trivial = minimisation removed >= 2 statements "
        "or a test case; distinct = distinct run digest.")
ASSUMPTIONS = ["corpus modules are deterministic and stateless, so re-execution on a private executor is a sound oracle"]
REAL = ["generator._minimize", "postprocess visitors (Forward/Backward/Combined/TestSuite/UnusedStatements/"
        "ExceptionTruncation/EmptyTestCaseRemover)", "real coverage functions and executor"]
STUBS = ["time module (SimClock)", "randomness.RNG (instrumented)", "thread scheduling"]
MANIFEST = {
    "engine": "E1-pipeline",
    "technique": "deterministic simulation of whole generator runs with injected execution timeouts during "
                 "minimisation; before/after suites compared by independent re-execution (reference model = the "
                 "unminimised clone)",
    "text": "Seeded exploration over strategies x directions x modules; strict equality of coverage in fault-free runs, "
            "deliberately and narrowly relaxed oracle in fault-injecting runs; structural subsequence and "
            "assertion-protection checks.",
    "note": "Trusted: private executor and fresh coverage functions; subsequence matching on rendered statement code.",
    "ref": "DESIGN.md §3 C22",
}
BUDGET = {
    "quick": {"runs": 224, "chunk": 8, "wall": 170, "chunk_timeout": 300, "selfcheck": 16},
    "thorough": {"runs": 8000, "chunk": 16, "wall": 1700, "chunk_timeout": 600, "selfcheck": 64},
}
_ALGOS = ["DYNAMOSA", "MOSA", "MIO", "WHOLE_SUITE", "RANDOM"]
_ASSIGN = re.compile(r"^\s*\w+\s*=\s*(?!=)")


def gen_case(run_seed: int, tier: str) -> dict:
    st = Streams(run_seed)
    r, k, f = st.get("ops"), st.get("knobs"), st.get("faults")
    case = gen_base_case(run_seed, r, k, algorithms=_ALGOS)
    kn = case["knobs"]
    kn["iterations"] = k.choice([2, 4, 6])
    kn["assertions"] = k.choice(["NONE", "SIMPLE"])
    kn["min_strategy"] = k.choice(["CASE", "SUITE", "COMBINED", "CASE", "SUITE", "COMBINED", "NONE"])
    kn["min_direction"] = k.choice(["FORWARD", "BACKWARD"])
    if case["algorithm"] != "DYNAMOSA":
        kn["metrics"] = k.choice([["BRANCH"], ["BRANCH", "LINE"]])
    case["timeout_p"] = f.choice([0.0, 0.0, 0.0, 0.1, 0.3])
    return case


def _rhs(code: str) -> str:
    return _ASSIGN.sub("", code.strip(), count=1)


def _codes(tc):
    import libcst as cst

    return [cst.Module(body=[s.node]).code.strip() for s in tc.statements()]


def _is_subsequence(small: list[str], big: list[str]) -> bool:
    it = iter(big)
    return all(any(_rhs(x) == _rhs(y) or x == y for y in it) for x in small)


class MinimizeMonitor(Monitor):
    def __init__(self):
        self.removed_statements = 0
        self.removed_tests = 0
        self.restore_path = False

    def before_minimize(self, run, suite):
        self.before = suite.clone()
        self.before_codes = [_codes(c.test_case) for c in suite.test_case_chromosomes]
        # the visitors edit TestCase objects in place: identity tells which original a surviving test case came from
        self.before_keep = [c.test_case for c in suite.test_case_chromosomes]
        self.before_ids = {id(t): i for i, t in enumerate(self.before_keep)}
        # what the run itself measures inside _minimize (after exception truncation, with whatever faults are
        # active) is captured from its own _check_coverage call
        self.measured_before = None
        import pynguin.generator as gen

        mon = self
        orig_cc = gen._check_coverage

        def cc(original, minimized):
            mon.measured_before = list(original)
            ok = orig_cc(original, minimized)
            mon.restore_path = not ok
            return ok

        run.patch(gen, "_check_coverage", cc)

    def _coverages(self, run, chroms):
        import pynguin.ga.computations as ff
        import pynguin.ga.testcasechromosome as tcc
        import pynguin.ga.testsuitechromosome as tsc

        priv = run.private_executor()
        # same functions, same order as the run optimises, but bound to the private executor
        fns = [type(f)(priv) for f in run.algorithm.test_suite_coverage_functions]
        s = tsc.TestSuiteChromosome()
        for c in chroms:
            s.add_test_case_chromosome(tcc.TestCaseChromosome(test_case=c.test_case.clone()))
        if not list(chroms):
            # an empty suite still has the coverage achieved by importing the module; the functions only see
            # it through a test's trace, so give them a test that does nothing
            from ..pyn import testcase

            s.add_test_case_chromosome(tcc.TestCaseChromosome(test_case=testcase([("var_0 = 0", "var_0", int)])))
        return [f.compute_coverage(s) for f in fns]

    def after_minimize(self, run, suite):
        from pynguin.ga.postprocess import get_assertion_protected_variables

        after_codes = [_codes(c.test_case) for c in suite.test_case_chromosomes]
        n_before = sum(len(c) for c in self.before_codes)
        n_after = sum(len(c) for c in after_codes)
        self.removed_statements = n_before - n_after
        self.removed_tests = len(self.before_codes) - len(after_codes)
        cov_before = self._coverages(run, self.before.test_case_chromosomes)
        cov_after = self._coverages(run, suite.test_case_chromosomes)
        run.hist.add("min", cov_before, cov_after, n_before, n_after)
        faulty = bool(run.case.get("timeout_p"))
        if not faulty:
            if not all(map(math.isclose, cov_before, cov_after)):
                run.violate("coverage-changed", f"coverage before minimisation {cov_before}, after {cov_after} "
                                                f"(strategy {run.case['knobs']['min_strategy']}/"
                                                f"{run.case['knobs']['min_direction']})")
        elif self.measured_before is not None:
            for mb, ca in zip(self.measured_before, cov_after):
                if ca < mb and not math.isclose(ca, mb):
                    run.violate("coverage-below-measured:with-timeouts",
                                f"final coverage {cov_after} is below what the run measured before minimisation "
                                f"{self.measured_before}")
        # structure
        def lost_asserted(match, codes):
            """An asserted statement of original #match that is missing from the minimised statements, or None."""
            orig_tc = self.before.test_case_chromosomes[match].test_case
            # exception truncation legitimately cuts everything after the first raising statement
            protected = get_assertion_protected_variables(orig_tc)
            kept_rhs = [_rhs(c) for c in codes]
            for s, code in zip(orig_tc.statements(), self.before_codes[match]):
                if s.bound_variable in protected and s.assertions and _rhs(code) not in kept_rhs:
                    return s.bound_variable, code
            return None

        for j, (chrom, codes) in enumerate(zip(suite.test_case_chromosomes, after_codes)):
            # which original is this?  by identity when the object survived; otherwise (restored clones) every original
            # it is a subsequence of is a candidate and the checks are existential over the candidates, so that two
            # originals sharing a prefix cannot produce a false alarm
            ident = self.before_ids.get(id(chrom.test_case))
            cands = [ident] if ident is not None else [i for i, orig in enumerate(self.before_codes)
                                                       if _is_subsequence(codes, orig)]
            cands = [i for i in cands if _is_subsequence(codes, self.before_codes[i])]
            if not cands:
                run.violate("statement-not-in-original",
                            f"minimised test #{j} is not a subsequence of "
                            f"{'its original' if ident is not None else 'any original test'}:\n" + "\n".join(codes))
                return
            losses = [lost_asserted(i, codes) for i in cands]
            if all(x is not None for x in losses):
                var, code = losses[0]
                run.violate("asserted-statement-removed",
                            f"statement `{code}` carries assertions on {var} but is gone from the "
                            f"minimised test #{j}:\n" + "\n".join(codes))
                return


def run_case(case: dict) -> dict:
    mon = MinimizeMonitor()
    run, res = run_pipeline(case, [mon])
    res["nontrivial"] = mon.removed_statements >= 2 or mon.removed_tests >= 1
    res["probes"].update(statements_removed=max(0, mon.removed_statements), tests_removed=max(0, mon.removed_tests))
    if case["run_seed"] % 11 == 0:
        res["sample"] = {"module": case["module"], "algorithm": case["algorithm"], "knobs": case["knobs"],
                         "timeout_p": case["timeout_p"], "statements_removed": mon.removed_statements,
                         "tests_removed": mon.removed_tests}
    res["executed_case"] = case
    return res


def minimise(case: dict, signature: str) -> dict:
    import sys

    from .c10 import _min_with

    return _min_with(sys.modules[__name__], case, signature)
