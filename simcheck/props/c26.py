"""C26 Generator selection offers only type-compatible generators (E1 monitor)."""

from __future__ import annotations

from ..pipeline import Monitor, gen_base_case, run_pipeline
from ..simkit import Streams

ID = "C26"
LEVEL = "exploration"
RULE = ("Each case = one whole simulated Pynguin run with type tracing ON (so return types observed at run time rewrite "
        "the generator map through update_return_type while the lru caches are warm), generator selection RANK or "
        "RANDOM, on the class-hierarchy/container corpus modules. Every call of select_generator_for(T) on the live "
        "provider is intercepted: the (cached) offered set must equal a from-scratch recomputation on the CURRENT "
        "generator map and type graph (uncached is_maybe_subtype), every offered generator's return type may be a "
        "subtype of T, and the other provider flavour (built on the same map, uncached) offers the same set. At the "
        "end every (generated type, requested type) pair seen is re-queried through the cached TypeSystem methods "
        "(is_subtype, is_maybe_subtype, subtype_distance, is_subclass) and compared with the uncached recomputation "
        "on the final graph. Non-trivial = >= 1 update_return_type changed the map after the first query and >= 20 "
        "selections followed; distinct = distinct run digest.")
ASSUMPTIONS = ["only update operations the running system performs (update_return_type via type tracing, to_type_info) "
               "are exercised; arbitrary graph edits are input generation"]
REAL = ["ModuleTestCluster.update_return_type/_drop_generator", "GeneratorProvider / RandomGeneratorProvider and their "
        "lru caches", "TypeSystem cached queries", "type tracing executor and observers"]
STUBS = ["time module (SimClock)", "randomness.RNG (instrumented)", "thread scheduling"]
MANIFEST = {
    "engine": "E1-pipeline",
    "technique": "deterministic simulation of whole generator runs with run-time type-graph/generator-map updates; every "
                 "cached answer served to the search is compared with an uncached reference recomputation at the moment "
                 "it is served (history property: queries interleaved with updates)",
    "text": "Seeded exploration of query/update histories that real runs produce; operation-level refinement check of "
            "the cached provider answers, compatibility of every offered generator, equivalence of both providers, and "
            "cached TypeSystem queries vs. recomputation on the final graph.",
    "note": "Trusted: reference filter (uncached is_maybe_subtype over the current generator map).",
    "ref": "DESIGN.md §3 C26",
}
BUDGET = {
    "quick": {"runs": 160, "chunk": 8, "wall": 170, "chunk_timeout": 400, "selfcheck": 8},
    "thorough": {"runs": 6000, "chunk": 16, "wall": 1700, "chunk_timeout": 800, "selfcheck": 32},
}
_ALGOS = ["DYNAMOSA", "MOSA", "WHOLE_SUITE", "RANDOM"]


def gen_case(run_seed: int, tier: str) -> dict:
    st = Streams(run_seed)
    r, k, f = st.get("ops"), st.get("knobs"), st.get("faults")
    case = gen_base_case(run_seed, r, k, algorithms=_ALGOS, modules=["zoo", "shapes", "zoo", "words", "floats"])
    kn = case["knobs"]
    kn["iterations"] = k.choice([2, 4, 6])
    kn["assertions"] = "NONE"
    kn["type_tracing"] = 1.0
    kn["generator_selection"] = k.choice(["RANK_SELECTION", "RANDOM_SELECTION"])
    kn["any_weight"] = k.choice([0, 5, 20])
    return case


class GeneratorMonitor(Monitor):
    def __init__(self):
        self.selections = 0
        self.updates = 0
        self.selections_after_update = 0
        self.pairs = set()

    def on_setup(self, run):
        import pynguin.analyses.generator as gp
        from pynguin.analyses.typesystem import AnyType

        mon = self
        cluster = run.cluster
        base = cluster
        while hasattr(base, "_FilteredModuleTestCluster__delegate"):
            base = base._FilteredModuleTestCluster__delegate
        provider = base.generator_provider
        ts = provider._type_system
        self.ts = ts
        cls = type(provider)
        other_cls = gp.RandomGeneratorProvider if cls is gp.GeneratorProvider else gp.GeneratorProvider
        other = other_cls(ts, provider._selection_function)
        other._generators = provider._generators  # the same live map
        maybe = type(ts).is_maybe_subtype.__wrapped__

        orig_urt = type(base).update_return_type

        def urt(self_c, accessible, new_type):
            before = accessible.inferred_signature.return_type
            orig_urt(self_c, accessible, new_type)
            if accessible.inferred_signature.return_type != before:
                mon.updates += 1
                run.hist.add("urt", str(accessible), str(accessible.inferred_signature.return_type))

        run.patch(type(base), "update_return_type", urt)
        # In this code base the test factory asks the cluster (exact-type lookup in the provider's map) and the
        # providers' subtype-aware selection is only reachable through select_generator_for.  The monitor therefore
        # issues the provider query itself at every moment the live run asks for generators of a type - real
        # requested types, interleaved with the run's real update_return_type calls.
        orig_ggf = type(base).get_generators_for

        def ggf(self_c, typ):
            live = orig_ggf(self_c, typ)
            if self_c is base:
                for g in live:
                    if not isinstance(typ, AnyType) and not maybe(ts, g.generated_type(), typ):
                        run.violate("incompatible-generator-offered:live-path",
                                    f"{typ}: cluster offered {g} returning {g.generated_type()}")
                sel(provider, typ)
            return live

        run.patch(type(base), "get_generators_for", ggf)

        def sel(self_p, parameter_type):
            chosen = None
            mon.selections += 1
            if mon.updates:
                mon.selections_after_update += 1
            offered = {g.generator for g in self_p._get_generators_for(parameter_type)}
            is_any = isinstance(parameter_type, AnyType)
            all_gens = {g for gens in self_p.get_all().values() for g in gens}
            stray = offered - all_gens
            if stray:
                run.violate("offered-generator-not-in-map",
                            f"{parameter_type}: offered {sorted(map(str, stray))[:3]} which the generator map no "
                            f"longer holds (stale cache after an update)")
                return chosen
            if not is_any:
                for gen_type, gens in self_p.get_all().items():
                    mon.pairs.add((gen_type, parameter_type))
                fresh = {g.generator for g in cls._get_generators_for.__wrapped__(self_p, parameter_type)}
                if fresh != offered:
                    run.violate("provider-cache-stale",
                                f"{parameter_type}: cached offer has {len(offered)} generators, uncached recomputation "
                                f"{len(fresh)}; only cached: {sorted(map(str, offered - fresh))[:3]}, only fresh: "
                                f"{sorted(map(str, fresh - offered))[:3]}")
                    return chosen
                for g in offered:
                    rt = g.generated_type()
                    if not maybe(ts, rt, parameter_type):
                        run.violate("incompatible-generator-offered",
                                    f"{parameter_type}: generator {g} returns {rt} which cannot be a subtype")
                        return chosen
                other_offer = {g.generator for g in other_cls._get_generators_for.__wrapped__(other, parameter_type)}
                if other_offer != offered:
                    run.violate(f"providers-differ:{type(parameter_type).__name__}",
                                f"{parameter_type}: {cls.__name__} offers {len(offered)}, {other_cls.__name__} offers "
                                f"{len(other_offer)}; only {cls.__name__}: {sorted(map(str, offered - other_offer))[:3]}; "
                                f"only {other_cls.__name__}: {sorted(map(str, other_offer - offered))[:3]}")
            return chosen


    def finish(self, run):
        ts = self.ts
        T = type(ts)
        for a, b in sorted(self.pairs, key=str):
            for name in ("is_subtype", "is_maybe_subtype"):
                fn = getattr(T, name)
                try:
                    cached = fn(ts, a, b)
                    fresh = fn.__wrapped__(ts, a, b)
                except Exception:  # noqa: BLE001
                    continue
                if cached != fresh:
                    run.violate(f"typesystem-cache-stale:{name}", f"{name}({a}, {b}): cached {cached}, recomputed {fresh}")
                    return
            try:
                cached = T.subtype_distance(ts, b, a)
                fresh = T.subtype_distance.__wrapped__(ts, b, a)
            except Exception:  # noqa: BLE001
                continue
            if cached != fresh:
                run.violate("typesystem-cache-stale:subtype_distance", f"subtype_distance({b}, {a}): cached {cached}, "
                                                                       f"recomputed {fresh}")
                return


def run_case(case: dict) -> dict:
    mon = GeneratorMonitor()
    run, res = run_pipeline(case, [mon])
    res["nontrivial"] = mon.updates >= 1 and mon.selections_after_update >= 20
    res["probes"].update(generator_selections=mon.selections, return_type_updates=mon.updates,
                         selections_after_first_update=mon.selections_after_update, type_pairs_rechecked=len(mon.pairs))
    res["faults"]["runtime_generator_map_update"] = mon.updates
    if case["run_seed"] % 11 == 0:
        res["sample"] = {"module": case["module"], "algorithm": case["algorithm"], "knobs": case["knobs"],
                         "selections": mon.selections, "updates": mon.updates}
    res["executed_case"] = case
    return res


def minimise(case: dict, signature: str) -> dict:
    import sys

    from .c10 import _min_with

    return _min_with(sys.modules[__name__], case, signature)
