"""C26 Generator selection offers only type-compatible generators (E1 monitor)."""

from __future__ import annotations

from ..pipeline import Monitor, gen_base_case, run_pipeline
from ..simkit import Streams

ID = "C26"
LEVEL = "exploration"
RULE = ("Each case = one whole simulated Pynguin run with type tracing ON (so return types observed at run time rewrite "
        "the generator map through update_return_type while the lru caches are warm), generator selection RANK or "
        "RANDOM, on corpus modules with class hierarchies, unions, fixed-size tuples, list/set/dict parameters and "
        "unannotated functions. Every request for generators on the live cluster is intercepted and, around each of the "
        "first 60 return-type updates of a run, a panel of all types a search may request (parameter types of every "
        "callable, every generated type) is queried before the update (warming the caches) and again after it. For "
        "each query: the cached offer must equal a from-scratch recomputation on the CURRENT generator map and type "
        "graph; every offered generator must still be in the map; its return type must be accepted by is_maybe_subtype "
        "AND by an independent reference relation (issubclass on the raw classes plus the PEP 484 numeric tower, one union member suffices, tuples "
        "element-wise at equal length, invariant list/set/dict arguments, Any matches); is_maybe_subtype must not "
        "accept a (generated type, requested type) pair the reference rejects; and the other provider flavour (same "
        "map, uncached) must offer the same set. At the end every pair seen is re-queried through the cached TypeSystem "
        "methods (is_subtype, is_maybe_subtype, subtype_distance) and compared with the uncached recomputation on the "
        "final graph. Non-trivial = >= 1 update changed the map and >= 20 queries followed; distinct = distinct run digest.")
ASSUMPTIONS = ["only update operations the running system performs (update_return_type via type tracing, to_type_info) "
               "are exercised; arbitrary graph edits are input generation"]
REAL = ["ModuleTestCluster.update_return_type/_drop_generator", "GeneratorProvider / RandomGeneratorProvider and their "
        "lru caches", "TypeSystem cached queries", "type tracing executor and observers"]
STUBS = ["time module (SimClock)", "randomness.RNG (instrumented)", "thread scheduling"]
MANIFEST = {
    "engine": "E1-pipeline",
    "technique": "deterministic simulation of whole generator runs with run-time type-graph/generator-map updates; every "
                 "cached answer served to the search is compared with an uncached reference recomputation at the moment "
                 "it is served (history property: queries interleaved with updates)",
    "text": "Seeded exploration of query/update histories that real runs produce (plus a panel of requestable types "
            "queried around every update); operation-level refinement check of the cached provider answers, "
            "compatibility of every offered generator against an independent reference relation, equivalence of both "
            "providers, and cached TypeSystem queries vs. recomputation on the final graph.",
    "note": "Trusted: the reference relation in this file (Python issubclass on raw classes + union/tuple/invariant "
            "container rules); uncached recomputation through __wrapped__.",
    "ref": "DESIGN.md §3 C26",
}
BUDGET = {
    "quick": {"runs": 160, "chunk": 8, "wall": 170, "chunk_timeout": 400, "selfcheck": 8},
    "thorough": {"runs": 6000, "chunk": 16, "wall": 1700, "chunk_timeout": 800, "selfcheck": 32},
}
_ALGOS = ["DYNAMOSA", "MOSA", "WHOLE_SUITE", "RANDOM"]


def gen_case(run_seed: int, tier: str) -> dict:
    st = Streams(run_seed)
    r, k, f = st.get("ops"), st.get("knobs"), st.get("faults")
    case = gen_base_case(run_seed, r, k, algorithms=_ALGOS, modules=["zoo", "shapes", "typed", "typed", "words", "floats"])
    kn = case["knobs"]
    kn["iterations"] = k.choice([2, 4, 6])
    kn["assertions"] = "NONE"
    kn["type_tracing"] = 1.0
    kn["generator_selection"] = k.choice(["RANK_SELECTION", "RANDOM_SELECTION"])
    kn["any_weight"] = k.choice([0, 5, 20])
    return case


def ref_maybe_subtype(left, right) -> bool:
    """Reference for 'left may be a subtype of right', independent of TypeSystem: class relations come from Python's
    own issubclass on the raw classes; unions need one member, tuples match element-wise at equal length, the
    hard-coded generics (list/set/dict) are invariant in their arguments, Any matches everything."""
    from pynguin.analyses.typesystem import AnyType, Instance, NoneType, TupleType, UnionType

    if isinstance(right, AnyType) or isinstance(left, AnyType):
        return True
    if isinstance(left, UnionType):
        return any(ref_maybe_subtype(le, right) for le in left.items)
    if isinstance(right, UnionType):
        return any(ref_maybe_subtype(left, r) for r in right.items)
    if isinstance(left, NoneType):
        return isinstance(right, NoneType)
    if isinstance(left, TupleType):
        return (isinstance(right, TupleType) and len(left.args) == len(right.args)
                and all(ref_maybe_subtype(a, b) for a, b in zip(left.args, right.args)))
    if isinstance(left, Instance):
        if not isinstance(right, Instance):
            return False
        lr, rr = left.type.raw_type, right.type.raw_type
        try:
            # PEP 484 numeric tower (the type system enables it): int is acceptable for float, float for complex
            tower = (rr is float and issubclass(lr, int)) or (rr is complex and issubclass(lr, (int, float)))
            if not tower and not issubclass(lr, rr):
                return False
        except TypeError:
            return False
        n = left.type.num_hardcoded_generic_parameters
        if n is not None and n == right.type.num_hardcoded_generic_parameters:
            return all(ref_maybe_subtype(a, b) and ref_maybe_subtype(b, a) for a, b in zip(left.args, right.args))
        return True
    return False


class GeneratorMonitor(Monitor):
    def __init__(self):
        self.selections = 0
        self.updates = 0
        self.selections_after_update = 0
        self.pairs = set()
        self.panel_queries = 0
        self.ref_pairs = 0
        self.class_queries = 0
        self.modifier_queries = 0
        self.stricter_than_reference = 0
        self.panel_budget = 60  # updates per run around which the whole panel is queried

    def on_setup(self, run):
        import pynguin.analyses.generator as gp
        from pynguin.analyses.typesystem import AnyType
        from pynguin.utils.orderedset import OrderedSet

        mon = self
        cluster = run.cluster
        base = cluster
        while hasattr(base, "_FilteredModuleTestCluster__delegate"):
            base = base._FilteredModuleTestCluster__delegate
        provider = base.generator_provider
        ts = provider._type_system
        self.ts = ts
        cls = type(provider)
        other_cls = gp.RandomGeneratorProvider if cls is gp.GeneratorProvider else gp.GeneratorProvider
        other = other_cls(ts, provider._selection_function)
        other._generators = provider._generators  # the same live map
        maybe = type(ts).is_maybe_subtype.__wrapped__

        orig_urt = type(base).update_return_type

        def panel():
            """Types the search may request: parameter types of every callable in the cluster and every generated type."""
            types = OrderedSet(provider.get_all().keys())
            for gens in list(provider.get_all().values()):
                for g in gens:
                    sig = getattr(g, "inferred_signature", None)
                    if sig is not None:
                        for t in sig.original_parameters.values():
                            types.add(t)
            return [t for t in types if not isinstance(t, AnyType)]

        def urt(self_c, accessible, new_type):
            before = accessible.inferred_signature.return_type
            if self_c is base and mon.panel_budget > 0:
                # the queries a search could have made before this update (they warm the caches; answers are checked)
                for t in panel():
                    sel(provider, t, live=False)
            orig_urt(self_c, accessible, new_type)
            if accessible.inferred_signature.return_type != before:
                mon.updates += 1
                run.hist.add("urt", str(accessible), str(accessible.inferred_signature.return_type))
                if self_c is base and mon.panel_budget > 0:
                    mon.panel_budget -= 1
                    types = panel()
                    for t in types:
                        sel(provider, t, live=False)
                        if run.violation:
                            break
                    # ... and only then the cluster's other type-directed query (read-only: which callables modify
                    # a T), so that answers cached by the queries above are still around if it changes anything
                    for t in types:
                        try:
                            base.get_modifiers_for(t)
                            mon.modifier_queries += 1
                        except Exception:  # noqa: BLE001
                            pass

        run.patch(type(base), "update_return_type", urt)
        # In this code base the test factory asks the cluster (exact-type lookup in the provider's map) and the
        # providers' subtype-aware selection is only reachable through select_generator_for.  The monitor therefore
        # issues the provider query itself at every moment the live run asks for generators of a type - real
        # requested types, interleaved with the run's real update_return_type calls.
        orig_ggf = type(base).get_generators_for

        def ggf(self_c, typ):
            live = orig_ggf(self_c, typ)
            if self_c is base:
                for g in live:
                    if not isinstance(typ, AnyType) and not maybe(ts, g.generated_type(), typ):
                        run.violate("incompatible-generator-offered:live-path",
                                    f"{typ}: cluster offered {g} returning {g.generated_type()}")
                sel(provider, typ)
            return live

        run.patch(type(base), "get_generators_for", ggf)

        def sel(self_p, parameter_type, live=True):
            chosen = None
            if run.violation:
                return chosen
            if live:
                mon.selections += 1
                if mon.updates:
                    mon.selections_after_update += 1
            else:
                mon.panel_queries += 1
            offered = {g.generator for g in self_p._get_generators_for(parameter_type)}
            is_any = isinstance(parameter_type, AnyType)
            all_gens = {g for gens in self_p.get_all().values() for g in gens}
            stray = offered - all_gens
            if stray:
                run.violate("offered-generator-not-in-map",
                            f"{parameter_type}: offered {sorted(map(str, stray))[:3]} which the generator map no "
                            f"longer holds (stale cache after an update)")
                return chosen
            if not is_any:
                for gen_type, gens in self_p.get_all().items():
                    mon.pairs.add((gen_type, parameter_type))
                fresh = {g.generator for g in cls._get_generators_for.__wrapped__(self_p, parameter_type)}
                if fresh != offered:
                    run.violate("provider-cache-stale",
                                f"{parameter_type}: cached offer has {len(offered)} generators, uncached recomputation "
                                f"{len(fresh)}; only cached: {sorted(map(str, offered - fresh))[:3]}, only fresh: "
                                f"{sorted(map(str, fresh - offered))[:3]}")
                    return chosen
                for g in offered:
                    rt = g.generated_type()
                    if not maybe(ts, rt, parameter_type) or not ref_maybe_subtype(rt, parameter_type):
                        run.violate(f"incompatible-generator-offered:{type(rt).__name__}->{type(parameter_type).__name__}",
                                    f"{parameter_type}: generator {g} returns {rt} which cannot be a subtype "
                                    f"(type system says {maybe(ts, rt, parameter_type)}, reference says "
                                    f"{ref_maybe_subtype(rt, parameter_type)})")
                        return chosen
                for gen_type in self_p.get_all():
                    mon.ref_pairs += 1
                    a, b = type(ts).is_maybe_subtype(ts, gen_type, parameter_type), ref_maybe_subtype(gen_type, parameter_type)
                    if a and not b:
                        # the relation that decides what is offered accepts a type that cannot be a subtype
                        run.violate(f"maybe-subtype-accepts-incompatible:{type(gen_type).__name__}->{type(parameter_type).__name__}",
                                    f"is_maybe_subtype({gen_type}, {parameter_type}) is True, reference (issubclass on the raw "
                                    f"classes, one union member suffices, tuples element-wise, invariant list/set/dict) says no")
                        return chosen
                    if b and not a:
                        mon.stricter_than_reference += 1  # fewer offers than possible: not what the property forbids
                other_offer = {g.generator for g in other_cls._get_generators_for.__wrapped__(other, parameter_type)}
                if other_offer != offered:
                    run.violate(f"providers-differ:{type(parameter_type).__name__}",
                                f"{parameter_type}: {cls.__name__} offers {len(offered)}, {other_cls.__name__} offers "
                                f"{len(other_offer)}; only {cls.__name__}: {sorted(map(str, offered - other_offer))[:3]}; "
                                f"only {other_cls.__name__}: {sorted(map(str, other_offer - offered))[:3]}")
            return chosen


    def finish(self, run):
        """Cached TypeSystem answers vs. a recomputation on the final graph.  The cached answers are collected first,
        then EVERY lru cache of the type system is cleared (the visitors recurse through the cached methods, so
        calling __wrapped__ alone would recompute only the outermost level), then everything is asked again."""
        ts = self.ts
        T = type(ts)
        nodes = list(ts._graph.nodes) if hasattr(ts, "_graph") else []  # noqa: SLF001
        pairs = sorted(self.pairs, key=str)
        cached: dict = {}

        def ask(tag, fn, *args):
            try:
                v = fn(ts, *args)
            except Exception:  # noqa: BLE001
                return None
            return frozenset(v) if isinstance(v, (set, frozenset)) or hasattr(v, "freeze") else v

        def sweep(store):
            for node in nodes:
                for name in ("get_subclasses", "get_superclasses"):
                    fn = getattr(T, name, None)
                    if fn is not None:
                        store[name, node] = ask(name, fn, node)
            for a_, b_ in pairs:
                for name in ("is_subtype", "is_maybe_subtype"):
                    store[name, a_, b_] = ask(name, getattr(T, name), a_, b_)
                store["subtype_distance", b_, a_] = ask("subtype_distance", T.subtype_distance, b_, a_)

        sweep(cached)
        for name in dir(T):
            fn = getattr(T, name, None)
            if callable(getattr(fn, "cache_clear", None)):
                fn.cache_clear()
        fresh: dict = {}
        sweep(fresh)
        self.class_queries = len(cached)
        for key, val in cached.items():
            if fresh.get(key) != val:
                what = ", ".join(getattr(x, "full_name", None) or str(x) for x in key[1:])
                run.violate(f"typesystem-cache-stale:{key[0]}",
                            f"{key[0]}({what}): cached answer {str(val)[:120]}, recomputation on the final graph with "
                            f"all caches cleared {str(fresh.get(key))[:120]}")
                return


def run_case(case: dict) -> dict:
    mon = GeneratorMonitor()
    run, res = run_pipeline(case, [mon])
    res["nontrivial"] = mon.updates >= 1 and (mon.selections_after_update >= 20 or mon.panel_queries >= 20)
    res["probes"].update(generator_selections=mon.selections, return_type_updates=mon.updates,
                         selections_after_first_update=mon.selections_after_update, type_pairs_rechecked=len(mon.pairs),
                         panel_queries_around_updates=mon.panel_queries, pairs_compared_with_reference=mon.ref_pairs, class_level_cache_queries_rechecked=mon.class_queries, modifier_queries=mon.modifier_queries,
                         pairs_where_type_system_is_stricter_than_reference=mon.stricter_than_reference)
    res["faults"]["runtime_generator_map_update"] = mon.updates
    if case["run_seed"] % 11 == 0:
        res["sample"] = {"module": case["module"], "algorithm": case["algorithm"], "knobs": case["knobs"],
                         "selections": mon.selections, "updates": mon.updates}
    res["executed_case"] = case
    return res


def minimise(case: dict, signature: str) -> dict:
    import sys

    from .c10 import _min_with

    return _min_with(sys.modules[__name__], case, signature)
