"""E1: the whole Pynguin pipeline inside one simulated process.

`run_pipeline(case, monitors)` runs generator.run_pynguin() end to end (analysis,
instrumentation, search, assertion generation, minimisation, export) with
  * SimClock on the time module (advances per RNG draw, per traced SUT line, per clock read),
  * SimRandom as randomness.RNG (same algorithm, counts/logs draws, optional buggify),
  * executor/exporter threads under the time-driven baton scheduler,
  * optional content-keyed timeout injection at the executor interface,
and calls monitor hooks at every iteration boundary and pipeline phase.
Must run in a fresh (forked) process: Pynguin keeps process-global state.
"""

from __future__ import annotations

import hashlib
import os
import shutil
import sys
import tempfile

from . import pyn, simkit
from .sched import Scheduler, SimThread, ThreadingShim
from .simkit import Decisions, History, SimClock

CORPUS = ["tiny", "words", "shapes", "floats", "zoo", "plain"]


class Monitor:
    """Base class: override what you need. Report with run.violate(sig, msg)."""

    def on_setup(self, run): ...
    def on_algorithm(self, run, algorithm): ...
    def before_first_iteration(self, run, initial): ...
    def after_iteration(self, run, best): ...
    def after_search(self, run): ...
    def before_assertions(self, run, suite): ...
    def after_assertions(self, run, suite): ...
    def before_minimize(self, run, suite): ...
    def after_minimize(self, run, suite): ...
    def before_export(self, run, suite): ...
    def after_export(self, run, suite): ...
    def finish(self, run): ...


class TimeBudgetProbe(Monitor):
    """Probe only: did a wall-time budget legitimately bind in this run?  (Local-search phases have a time budget;
    a run in which a phase used up its own budget may legally depend on the speed of the machine.)"""

    def on_setup(self, run):
        import time

        import pynguin.configuration as config
        from pynguin.testcase.localsearchtimer import LocalSearchTimer

        orig_start, orig_limit = LocalSearchTimer.start_timer, LocalSearchTimer.limit_reached

        def start_timer(self_t):
            self_t._verif_phase_start_s = int(time.perf_counter())  # noqa: SLF001
            run.probe("local_search_phases")
            return orig_start(self_t)

        def limit_reached(self_t):
            r = orig_limit(self_t)
            if r:
                run.probe("local_search_limit_reported")
                own = getattr(self_t, "_verif_phase_start_s", None)
                budget = config.configuration.local_search.local_search_time
                if own is not None and int(time.perf_counter()) * 1000 > own * 1000 + budget:
                    run.probe("local_search_phase_used_up_its_own_budget")
            return r

        run.patch(LocalSearchTimer, "start_timer", start_timer)
        run.patch(LocalSearchTimer, "limit_reached", limit_reached)


def _call_site():
    """First pynguin frame (outside utils/randomness.py) below an RNG draw, plus its caller."""
    f = sys._getframe(2)
    while f is not None:
        fn = f.f_code.co_filename
        if "/pynguin/" in fn and not fn.endswith("utils/randomness.py"):
            g = f.f_back
            return (f"{os.path.basename(fn)}:{f.f_code.co_name}:{f.f_lineno}",
                    f"{os.path.basename(g.f_code.co_filename)}:{g.f_code.co_name}:{g.f_lineno}" if g else "")
        f = f.f_back
    return ("?", "")


def make_sim_random(base_cls, run):
    class SimRandom(base_cls):
        def random(self):
            run.draws += 1
            run.clock.ns += run.draw_cost_ns
            v = super().random()
            if run.buggify_p and run.fault_rng.random() < run.buggify_p:
                site, _caller = _call_site()
                fn = site.split(":")[1] if ":" in site else site
                if run.buggify_funcs is not None:
                    hit = fn in run.buggify_funcs
                else:
                    hit = site in run.buggify_sites or (len(run.buggify_sites) < run.buggify_max_sites
                                                        and run.fault_rng.random() < 0.3)
                if hit:
                    run.buggify_sites.add(site)
                    v = run.fault_rng.choice([0.0, 1.0 - 2.0 ** -53, 0.5, 2.0 ** -53])
                    run.buggified += 1
            run.last_random_draw = v
            if run.draw_log is not None:
                site, caller = _call_site()
                run.draw_log.append((site, caller, "random", repr(v)))
            run.draw_hash.update(repr(v).encode())
            return v

        def getrandbits(self, k):
            run.draws += 1
            run.clock.ns += run.draw_cost_ns
            v = super().getrandbits(k)
            if run.draw_log is not None:
                site, caller = _call_site()
                run.draw_log.append((site, caller, "bits", f"{k}:{v}"))
            run.draw_hash.update(f"{k}:{v}".encode())
            return v

    return SimRandom


class PipelineRun:
    def __init__(self, case: dict, monitors: list[Monitor]):
        self.case = case
        self.monitors = monitors
        self.violation = None
        self.hist = History(keep=10**7 if case.get('return_hist') else 200)
        self.clock = SimClock()
        self.clock.tick_on_read_ns = 0  # reads must not move time: lazily initialised code reads the clock a different number of times per process
        # "machine speed": every simulated cost (per RNG draw, per execution, per traced line) scaled by one factor
        self.speed = case.get("speed", 1)
        self.draw_cost_ns = case.get("draw_cost_ns", 200_000) * self.speed
        self.exec_cost_ns = case.get("exec_cost_ns", 2_000_000) * self.speed
        self.draws = 0
        self.draw_hash = hashlib.sha256()
        self.draw_log = [] if case.get("log_draws") else None
        self.fault_rng = simkit.HRandom(simkit.derive_seed(case["run_seed"], "faults"))
        self.buggify_p = case.get("buggify_p", 0.0)
        self.buggify_sites: set[str] = set()
        self.buggify_max_sites = 3
        self.buggify_funcs = set(case["buggify_funcs"]) if case.get("buggify_funcs") else None
        self.last_random_draw = None
        self.buggified = 0
        self.exec_log = [] if case.get("log_execs") else None
        self.timeout_p = case.get("timeout_p", 0.0)
        self.injected_timeouts = 0
        self.timeout_codes: set = set()  # test code (hash) whose execution ended as a timeout / that completed
        self.ok_codes: set = set()
        self.executions = 0
        self.iterations = 0
        self.probes: dict[str, int] = {}
        self.algorithm = None
        self.executor = None
        self.cluster = None
        self.rc = None
        self.out_dir = None
        self.test_file = None
        self.phase = "setup"
        self.error = None

    # ------------------------------------------------------------------
    def violate(self, signature: str, message: str, **extra) -> None:
        if self.violation is None:
            self.violation = {"signature": signature, "message": message, "phase": self.phase,
                              "iteration": self.iterations, **extra}

    def probe(self, name: str, n: int = 1) -> None:
        self.probes[name] = self.probes.get(name, 0) + n

    def _each(self, hook: str, *args) -> None:
        for m in self.monitors:
            getattr(m, hook)(self, *args)

    def private_executor(self):
        """An observer-free executor on the same instrumented module (monitor use only)."""
        import pynguin.testcase.execution as ex

        return ex.TestCaseExecutor(self.executor.subject_properties,
                                   maximum_test_execution_timeout=self.cfg.stopping.maximum_test_execution_timeout,
                                   test_execution_time_per_statement=self.cfg.stopping.test_execution_time_per_statement)

    # ------------------------------------------------------------------
    def build_config(self):
        import pynguin.configuration as config

        c = self.case
        kn = c.get("knobs", {})
        self.out_dir = tempfile.mkdtemp(prefix="verif-e1-")
        sections = {
            "stopping": {"maximum_iterations": kn.get("iterations", 3),
                         "maximum_test_executions": kn.get("max_executions", -1),
                         "maximum_statement_executions": kn.get("max_statements", -1),
                         "maximum_search_time": kn.get("search_time", -1),
                         "maximum_test_execution_timeout": kn.get("exec_timeout", 5),
                         "maximum_coverage_plateau": kn.get("plateau", -1)},
            "search_algorithm": {"population": kn.get("population", 8),
                                 "chromosome_length": kn.get("chromosome_length", 16),
                                 "use_archive": kn.get("use_archive", False),
                                 "selection": getattr(config.Selection, kn.get("selection", "RANK_SELECTION")),
                                 "rank_bias": kn.get("rank_bias", 1.68),
                                 "min_initial_tests": 1, "max_initial_tests": kn.get("max_initial_tests", 4)},
            "test_creation": {"max_recursion": kn.get("max_recursion", 6),
                              "none_weight": kn.get("none_weight", 1), "any_weight": kn.get("any_weight", 5),
                              "object_reuse_probability": kn.get("object_reuse", 0.9)},
            "test_case_output": {
                "assertion_generation": getattr(config.AssertionGenerator, kn.get("assertions", "SIMPLE")),
                "mutation_strategy": getattr(config.MutationStrategy, kn.get("mutation_strategy", "FIRST_ORDER_MUTANTS")),
                "mutation_order": kn.get("mutation_order", 1),
                "maximum_mutants": kn.get("max_mutants", 40),
                "post_process": kn.get("post_process", True),
                "no_xfail": kn.get("no_xfail", False),
                "assertion_minimization": kn.get("assertion_minimization", True),
                "filter_assertions_in_subprocess": False,  # would fork a real, unsimulated child
            },
            "type_inference": {"type_tracing": kn.get("type_tracing", 0.0)},
            "generator_selection": {"generator_selection_algorithm":
                                    getattr(config.Selection, kn.get("generator_selection", "RANK_SELECTION"))},
            "local_search": {"local_search": kn.get("local_search", False),
                             "local_search_time": kn.get("local_search_time_ms", 300)},
            "random": {"max_sequence_length": 6, "max_sequences_combined": 4},
        }
        cfg = pyn.make_config(c["module"], self.out_dir, seed=c["seed"],
                              algorithm=getattr(config.Algorithm, c["algorithm"]), **sections)
        mz = cfg.test_case_output.minimization
        mz.test_case_minimization_strategy = getattr(config.MinimizationStrategy, kn.get("min_strategy", "CASE"))
        mz.test_case_minimization_direction = getattr(config.MinimizationDirection, kn.get("min_direction", "BACKWARD"))
        metrics = kn.get("metrics", ["BRANCH"])
        cfg.statistics_output.coverage_metrics = [getattr(config.CoverageMetric, m) for m in metrics]
        self.cfg = cfg
        return cfg

    # ------------------------------------------------------------------
    def run(self) -> dict:
        config, gen = pyn.import_pynguin()
        import pynguin.ga.searchobserver as so
        import pynguin.testcase.execution as ex
        import pynguin.testcase.export as export
        from pynguin.testcase.execution_result import ExecutionResult
        from pynguin.utils import randomness

        cfg = self.build_config()
        gen.set_configuration(cfg)
        run = self
        self._undo = []

        def patch(obj, name, new):
            self._undo.append((obj, name, getattr(obj, name)))
            setattr(obj, name, new)

        self.patch = patch
        patch(randomness, "RNG", randomness.RNG)
        patch(ex, "threading", ex.threading)
        patch(export, "threading", export.threading)

        # ---- seams ----------------------------------------------------
        sim_rng_cls = make_sim_random(randomness.Random, self)
        randomness.RNG = sim_rng_cls(0)
        try:
            import pynguin.analyses.string_subtypes as ss

            ss.RNG = randomness.RNG  # the only module that binds RNG by value
        except ImportError:
            pass
        sch = Scheduler(self.clock, Decisions(simkit.HRandom(simkit.derive_seed(self.case["run_seed"], "sched"))),
                        policy="time_driven", history=self.hist,
                        sut_line_cost_ns=self.case.get("line_cost_ns", 20_000) * self.speed, max_yields=30_000_000)
        sut_dir = str(simkit.SUT_DIR) + os.sep

        mutant_filename = self.case["module"]  # mutated modules are compiled with the bare module name as filename

        def classify(code):
            fn = code.co_filename
            return "sut" if (fn == "<ast>" or fn == "<stmt>" or fn == mutant_filename or fn.startswith(sut_dir)) else None

        sch.classify = classify
        if self.case.get("log_lines"):
            sch.line_log = []
        self.sched = sch
        shim = ThreadingShim()
        ex.threading = shim
        export.threading = shim
        import pynguin.testcase.execution_isolation as iso

        patch(iso, "threading", iso.threading)
        iso.threading = shim
        SimThread.scheduler = sch

        # ---- fault injection at the executor interface -------------------
        orig_execute = ex.TestCaseExecutor.execute

        def execute(self_ex, test_case):
            run.executions += 1
            run.clock.ns += run.exec_cost_ns  # thread start, instrumentation overhead: an execution is never free
            code = test_case.to_code()
            run.hist.add("exec", run.executions, hashlib.sha256(code.encode()).hexdigest()[:12])
            if run.exec_log is not None:
                run.exec_log.append(code)
            res = None
            if run.timeout_p and self_ex is run.executor:
                h = int(hashlib.sha256(code.encode()).hexdigest()[:8], 16) / 0xFFFFFFFF
                if h < run.timeout_p:
                    run.injected_timeouts += 1
                    self_ex._executed_test_cases += 1
                    self_ex._before_remote_test_case_execution(test_case)
                    res = ExecutionResult(timeout=True)
                    self_ex._after_remote_test_case_execution(test_case, res)
            if res is None:
                try:
                    res = orig_execute(self_ex, test_case)
                finally:
                    # whatever is still running when execute() returns was given up by the executor (Python threads
                    # cannot be killed): from now on it only gets the slices an abandoned thread gets
                    if run.sched.mark_abandoned():
                        run.probe("threads_abandoned_after_timeout")
            tr = res.execution_trace
            if res.timeout:
                run.probe("timeouts_seen")
                run.timeout_codes.add(hashlib.sha256(code.encode()).hexdigest()[:12])
            else:
                run.ok_codes.add(hashlib.sha256(code.encode()).hexdigest()[:12])
            sig = (res.timeout, sorted((k, type(v).__name__) for k, v in res.exceptions.items()),
                   sorted(tr.covered_line_ids), sorted(tr.executed_code_objects),
                   sorted(tr.executed_predicates.items()), sorted(tr.true_distances.items()),
                   sorted(tr.false_distances.items()))
            run.hist.add("res", run.executions, hashlib.sha256(repr(sig).encode()).hexdigest()[:12])
            return res

        patch(ex.TestCaseExecutor, "execute", execute)

        # ---- monitor plumbing ---------------------------------------------
        class Obs(so.SearchObserver):
            def before_search_start(self, start_time_ns):
                run.phase = "search"

            def before_first_search_iteration(self, initial):
                run._each("before_first_iteration", initial)

            def after_search_iteration(self, best):
                run.iterations += 1
                run.hist.add("iter", run.iterations, run.executions, run.draws)
                run._each("after_iteration", best)

            def after_search_finish(self):
                run._each("after_search")

        orig_inst = gen._instantiate_test_generation_strategy

        def inst(executor, cluster, constant_provider):
            run.executor = executor
            run.cluster = cluster
            run._each("on_setup")
            algo = orig_inst(executor, cluster, constant_provider)
            run.algorithm = algo
            algo.add_search_observer(Obs())
            run._each("on_algorithm", algo)
            return algo

        patch(gen, "_instantiate_test_generation_strategy", inst)

        def wrap(name, before, after, phase, suite_arg=0):
            orig = getattr(gen, name)

            def w(*a, **k):
                run.phase = phase
                suite = a[suite_arg] if len(a) > suite_arg else None
                run._each(before, suite)
                r = orig(*a, **k)
                run._each(after, suite)
                return r

            patch(gen, name, w)

        wrap("_generate_assertions", "before_assertions", "after_assertions", "assertions", suite_arg=1)
        wrap("_minimize", "before_minimize", "after_minimize", "minimize")
        wrap("_export_chromosome", "before_export", "after_export", "export")

        # ---- go -------------------------------------------------------------
        stdout, stderr = sys.stdout, sys.stderr
        try:
            with self.clock:
                self.clock.sleeper = sch.sleep
                try:
                    self.rc = gen.run_pynguin()
                except BaseException as e:  # noqa: BLE001
                    self.error = e
                    import traceback

                    self.error_tb = traceback.format_exc()[-3000:]
                finally:
                    try:
                        sch.mark_abandoned()
                        sch.shutdown()
                    except BaseException as e:  # noqa: BLE001
                        self.probe("shutdown_error")
        finally:
            SimThread.scheduler = None
            sys.stdout, sys.stderr = stdout, stderr
            for obj, name, old in reversed(self._undo):
                setattr(obj, name, old)
            try:
                import pynguin.analyses.string_subtypes as ss

                ss.RNG = randomness.RNG
            except ImportError:
                pass
        self.phase = "finish"
        tf = os.path.join(self.out_dir, f"test_{self.case['module'].rsplit('.', 1)[-1]}.py")
        if os.path.exists(tf):
            self.test_file = open(tf, "rb").read()
        if self.error is None:
            self._each("finish")
        return self.result()

    def result(self) -> dict:
        rc = None if self.rc is None else int(self.rc)
        self.hist.add("end", rc, self.iterations, self.executions, self.draws,
                      hashlib.sha256(self.test_file or b"").hexdigest()[:16])
        violation = self.violation
        if self.error is not None and violation is None:
            violation = {"signature": f"pipeline-raised:{type(self.error).__name__}",
                         "message": f"run_pynguin raised {self.error!r}\n{getattr(self, 'error_tb', '')}",
                         "phase": self.phase}
        return {
            "violation": violation,
            "digest": self.hist.digest(),
            "rc": rc,
            "iterations": self.iterations,
            "executions": self.executions,
            "draws": self.draws,
            "draw_digest": self.draw_hash.hexdigest()[:24],
            "test_file_sha": hashlib.sha256(self.test_file or b"").hexdigest()[:24],
            "probes": dict(self.probes, injected_timeouts=self.injected_timeouts, buggified_draws=self.buggified,
                           executions=self.executions, iterations=self.iterations),
            "faults": {"injected_timeout": self.injected_timeouts, "buggified_rng_draw": self.buggified,
                       "natural_timeouts": self.probes.get("natural_timeouts", 0)},
            "sim_ns": self.clock.ns,
        }

    def cleanup(self):
        if self.out_dir:
            shutil.rmtree(self.out_dir, ignore_errors=True)


def run_pipeline(case: dict, monitors: list[Monitor], keep_dir: bool = False):
    run = PipelineRun(case, monitors)
    try:
        res = run.run()
    finally:
        if not keep_dir:
            run.cleanup()
    return run, res


def gen_base_case(run_seed: int, r, k, *, algorithms, modules=CORPUS) -> dict:
    """Common swarm knobs. r = ops stream, k = knobs stream."""
    return {
        "run_seed": run_seed,
        "module": r.choice(modules),
        "algorithm": r.choice(algorithms),
        "seed": r.randrange(1, 10_000),
        "knobs": {
            "iterations": k.choice([1, 2, 3, 4, 6]),
            "population": k.choice([4, 6, 8, 12]),
            "chromosome_length": k.choice([6, 10, 16, 24]),
            "max_recursion": k.choice([1, 3, 6]),
            "assertions": "SIMPLE",
            "max_initial_tests": k.choice([2, 4]),
        },
    }
