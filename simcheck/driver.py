"""Generic driver: seeded search over cases of one property module.

A property module provides
    ID, LEVEL, RULE, ASSUMPTIONS, REAL, STUBS, BUDGET{tier:{runs,chunk,wall,chunk_timeout}}
    setup_parent()              optional, before forking (imports)
    setup_process()             optional, once per forked child
    gen_case(run_seed, tier)    -> JSON-able case (ops, faults, knobs, schedule seed)
    run_case(case)              -> result dict (see below); executing a *recorded* case
    minimise(case, fails)       optional; default = ddmin over case['ops'], ['faults'], ['schedule']
    known_probe_cases()         optional: list of fixed cases for KNOWN findings (always run)
run_case result keys:
    violation: None | {signature, message, ...}
    digest: str; nontrivial: bool; probes: {name:int}; faults: {kind:int}; sim_ns: int
    sample: small JSON-able description of the case as executed (optional)
"""

from __future__ import annotations

import json
import os
import sys

from . import simkit

_process_ready = False


def _ensure_process(mod):
    global _process_ready
    if not _process_ready:
        if hasattr(mod, "setup_process"):
            mod.setup_process()
        _process_ready = True


def default_minimise(mod, case: dict, signature: str, max_tests: int = 120, max_seconds: float = 90.0) -> dict:
    budget = [max_tests]
    t_end = simkit.real_monotonic() + max_seconds  # minimisation is a convenience: it must never cost the finding

    def fails(c) -> bool:
        if simkit.real_monotonic() > t_end:
            budget[0] = 0
            return False
        try:
            r = mod.run_case(c)
        except BaseException:  # noqa: BLE001
            return False
        v = r.get("violation")
        return bool(v) and v.get("signature") == signature

    best = dict(case)
    for key in ("ops", "faults"):
        if isinstance(best.get(key), list) and len(best[key]) > 0:
            def test(sub, key=key):
                c = dict(best)
                c[key] = sub
                if hasattr(mod, "normalise_case"):
                    c = mod.normalise_case(c)
                return fails(c)

            new = simkit.ddmin(best[key], test, budget)
            c = dict(best)
            c[key] = new
            if hasattr(mod, "normalise_case"):
                c = mod.normalise_case(c)
            if fails(c):
                best = c
    sched = best.get("schedule")
    if isinstance(sched, dict) and sched:
        items = sorted(sched.items(), key=lambda kv: int(kv[0]))

        def test_s(sub):
            c = dict(best)
            c["schedule"] = dict(sub)
            return fails(c)

        new = simkit.ddmin(items, test_s, budget)
        c = dict(best)
        c["schedule"] = dict(new)
        if fails(c):
            best = c
    best["minimise_tests_used"] = max_tests - budget[0]
    return best


def _run_item(args):
    mod, item, tier = args[:3]
    do_minimise = args[3] if len(args) > 3 else True
    t_a = simkit.real_monotonic()
    _ensure_process(mod)
    if isinstance(item, dict):  # a fixed case
        case = item
        run_seed = case.get("_fixed_id") or case.get("run_seed", 0)
    else:
        run_seed = item
        case = mod.gen_case(run_seed, tier)
    t_b = simkit.real_monotonic()
    res = mod.run_case(case)
    t_c = simkit.real_monotonic()
    if os.environ.get("VERIF_DEBUG"):
        os.write(2, f"TIMING setup+gen={t_b - t_a:.2f} run={t_c - t_b:.2f}\n".encode())
    out = {
        "status": "ok",
        "run_seed": run_seed,
        "digest": res.get("digest"),
        "nontrivial": bool(res.get("nontrivial")),
        "probes": res.get("probes", {}),
        "faults": res.get("faults", {}),
        "sim_ns": int(res.get("sim_ns", 0)),
        "states": res.get("states"),
    }
    if res.get("sample") is not None:
        out["sample"] = res["sample"]
    v = res.get("violation")
    if v:
        out["status"] = "violation"
        # replay-capable case: the executed one (with recorded schedule)
        full = res.get("executed_case", case)
        sig = v["signature"]
        try:
            if not do_minimise:
                raise StopIteration
            if hasattr(mod, "minimise"):
                small = mod.minimise(full, sig)
            else:
                small = default_minimise(mod, full, sig)
            r2 = mod.run_case(small)
            v2 = r2.get("violation")
            if v2 and v2.get("signature") == sig:
                full, v = r2.get("executed_case", small), v2
                out["digest"] = r2.get("digest")
        except StopIteration:
            pass
        except BaseException as e:  # noqa: BLE001
            out["minimise_error"] = repr(e)
        out["violation"] = v
        out["case"] = full
    return out


def run_property(mod, tier: str, seed: int, replay: str | None = None, runs_override: int | None = None) -> int:
    t0 = simkit.real_monotonic()
    prop = mod.ID
    if hasattr(mod, "setup_parent"):
        mod.setup_parent()

    if replay:
        payload = json.loads(open(replay).read())
        case = payload["case"]
        results, problems = simkit.run_pool(
            lambda it: _run_item((mod, it, tier, False)), [case], workers=1, chunk_size=1,
            per_chunk_timeout=600, scratch_tag=f"{prop}-replay")
        if problems:
            print(problems[0]["error"], file=sys.stderr)
            return 2
        r = results[0]
        if r["status"] == "violation":
            print(f"replayed: {r['violation'].get('signature')} :: {r['violation'].get('message')}")
            print(f"digest={r['digest']} recorded_digest={payload.get('digest')} "
                  f"exact_replay={r['digest'] == payload.get('digest')}")
            print(f"VIOLATION property={prop} replay={replay}")
            return 1
        print("replay did not reproduce a violation")
        return 0

    budget = dict(mod.BUDGET[tier])
    n_runs = runs_override or int(os.environ.get("VERIF_RUNS", budget["runs"]))
    chunk = budget.get("chunk", 20)
    wall = float(os.environ.get("VERIF_WALL", budget.get("wall", 60)))
    workers = int(os.environ.get("VERIF_WORKERS", simkit.ncpu()))
    seeds = [simkit.derive_seed(seed, prop, i) for i in range(n_runs)]
    items: list = list(seeds)
    # determinism self-check: first k seeds are run again, in other chunks
    k_self = min(len(seeds), budget.get("selfcheck", max(4, n_runs // 25)))
    fixed = list(mod.known_probe_cases()) if hasattr(mod, "known_probe_cases") else []
    import glob

    for f in sorted(glob.glob(str(simkit.VERIF / "regressions" / f"{prop}-*.json"))):
        c = dict(json.loads(open(f).read())["case"])
        c["_fixed_id"] = "reg:" + os.path.basename(f)
        fixed.append(c)
    if hasattr(mod, "group_key"):
        items.sort(key=mod.group_key)
    items = fixed + items + seeds[:k_self][::-1]

    results, problems = simkit.run_pool(
        lambda it: _run_item((mod, it, tier)), items, workers=workers, chunk_size=chunk,
        per_chunk_timeout=budget.get("chunk_timeout", 300),
        deadline=t0 + wall, scratch_tag=f"{prop}-{tier}", solo=getattr(mod, "solo", None))

    if problems:
        for p in problems[:3]:
            print("HARNESS-ERROR", p.get("item"), file=sys.stderr)
            print(p.get("error"), file=sys.stderr)
        print(f"harness errors: {len(problems)}", file=sys.stderr)
        if not any(r["status"] == "violation" for r in results):
            return 2
        # some chunks died or hung (a change that breaks the property can also make runs hang), but other runs did
        # report violations: those are replayable facts and are reported; the exit code can no longer be 0

    # determinism
    by_seed: dict = {}
    mismatches = []
    for r in results:
        if r["run_seed"] in by_seed and not isinstance(r["run_seed"], dict):
            if by_seed[r["run_seed"]]["digest"] != r["digest"]:
                mismatches.append((r["run_seed"], by_seed[r["run_seed"]]["digest"], r["digest"]))
        else:
            by_seed[r["run_seed"]] = r
    rerun = len(results) - len(by_seed)
    if mismatches:
        print(f"HARNESS-ERROR nondeterministic runs: {mismatches[:5]}", file=sys.stderr)
        return 2

    uniq = list(by_seed.values())
    known = simkit.known_signatures(prop)
    viol = [r for r in uniq if r["status"] == "violation"]
    new_sigs: dict[str, dict] = {}
    known_hit: dict[str, dict] = {}
    for r in viol:
        sig = r["violation"]["signature"]
        if sig in known:
            known_hit.setdefault(sig, r)
        else:
            cur = new_sigs.get(sig)
            if cur is None or len(json.dumps(r["case"], default=repr)) < len(json.dumps(cur["case"], default=repr)):
                new_sigs[sig] = r

    for sig, r in sorted(known_hit.items()):
        print(f"KNOWN-FINDING: property={prop} {sig} :: {known[sig].get('what', '')}")
    for sig, r in sorted(new_sigs.items()):
        path = simkit.write_replay(prop, r["run_seed"], {
            "property": prop, "run_seed": r["run_seed"], "tier": tier, "verif_seed": seed,
            "violation": r["violation"], "digest": r["digest"], "case": r["case"],
        })
        print(f"violation: {sig} :: {r['violation'].get('message')}")
        print(f"VIOLATION property={prop} replay={path}")

    # evidence
    probes: dict = {}
    faults: dict = {}
    sim_ns = 0
    digests = set()
    samples = []
    for r in uniq:
        for k, v in r["probes"].items():
            probes[k] = probes.get(k, 0) + v
        for k, v in r["faults"].items():
            faults[k] = faults.get(k, 0) + v
        sim_ns += r["sim_ns"]
        if r["nontrivial"]:
            digests.add(r["digest"])
        if "sample" in r and len(samples) < 3:
            samples.append(r["sample"])
    wall_s = simkit.real_monotonic() - t0
    coverage = {
        "evaluations": len(uniq),
        "distinct_nontrivial": len(digests),
        "rule": mod.RULE,
        "samples": samples or [{"note": "no sample recorded"}],
        "runs_per_hour": int(len(results) / max(wall_s, 1e-6) * 3600),
        "sim_seconds_covered": round(sim_ns / 1e9, 3),
        "fault_counts": faults,
        "probe_counts": probes,
        "real_components": mod.REAL,
        "stubbed_components": mod.STUBS,
        "determinism_selfcheck": {"seeds_rerun_in_other_process": rerun, "digest_mismatches": 0},
        "planned_runs": n_runs,
        "workers": workers,
        "known_findings_reproduced": sorted(known_hit),
        "violation_signatures": sorted(new_sigs),
    }
    if hasattr(mod, "extra_coverage"):
        coverage.update(mod.extra_coverage(uniq))
    if not os.environ.get("VERIF_NO_EVIDENCE"):
        simkit.write_evidence(prop, tier, seed, mod.LEVEL, coverage, mod.ASSUMPTIONS, wall_s, len(new_sigs))
    alt_rc = 0
    n_alt = budget.get("alt_hashseed_runs", 0)
    if n_alt and not os.environ.get("VERIF_NO_ALT") and not new_sigs:
        import subprocess

        env = dict(os.environ, PYTHONHASHSEED="20011", VERIF_NO_ALT="1", VERIF_NO_EVIDENCE="1",
                   VERIF_SEED=str(seed + 1))
        pr = subprocess.run([sys.executable, "-u", str(simkit.VERIF / "simcheck" / "main.py"), prop, "--tier", tier,
                             "--runs", str(n_alt)], env=env, capture_output=True, text=True, check=False)
        sys.stdout.write(pr.stdout)
        sys.stderr.write(pr.stderr[-2000:])
        alt_rc = pr.returncode
        coverage["alt_hashseed_run"] = {"PYTHONHASHSEED": 20011, "runs": n_alt, "exit": alt_rc}
        if not os.environ.get("VERIF_NO_EVIDENCE"):
            simkit.write_evidence(prop, tier, seed, mod.LEVEL, coverage, mod.ASSUMPTIONS,
                                  simkit.real_monotonic() - t0, len(new_sigs) + (1 if alt_rc == 1 else 0))
        if alt_rc == 2:
            return 2
    print(f"{prop} {tier}: runs={len(uniq)} nontrivial-distinct={len(digests)} "
          f"violations={len(new_sigs)} known={len(known_hit)} wall={wall_s:.1f}s"
          + (f" harness-errors={len(problems)}" if problems else ""))
    if new_sigs or alt_rc == 1:
        return 1
    return 2 if problems else 0
