"""Helpers to drive the real pynguin from the harness (no repo hooks)."""

from __future__ import annotations

import importlib
import logging
import sys

from . import simkit


def import_pynguin():
    """Import pynguin from the repo under check (VERIF_REPO or /repo)."""
    src = str(simkit.REPO / "src")
    if sys.path[0] != src:
        sys.path.insert(0, src)
    import pynguin  # noqa: F401
    import pynguin.configuration as config
    import pynguin.generator as gen

    assert gen.__file__.startswith(src), (gen.__file__, src)
    logging.getLogger("pynguin").setLevel(logging.CRITICAL)
    return config, gen


def make_config(module_name: str, out_dir: str, *, seed: int = 1, algorithm=None, **sections):
    """Build a Configuration; `sections` maps section name -> {field: value}."""
    import pynguin.configuration as config

    cfg = config.Configuration(
        project_path=str(simkit.SUT_DIR),
        module_name=module_name,
        test_case_output=config.TestCaseOutputConfiguration(output_path=out_dir),
    )
    if algorithm is not None:
        cfg.algorithm = algorithm
    cfg.seeding.seed = seed
    cfg.statistics_output.statistics_backend = config.StatisticsBackend.NONE
    cfg.statistics_output.report_dir = out_dir
    cfg.stopping.maximum_memory = -1
    cfg.use_master_worker = False
    # never let the module analysis switch the run to the (real, unsimulated) subprocess executor behind our back;
    # the subprocess executor is exercised on its own simulated transport by C31
    cfg.subprocess_if_recommended = False
    cfg.subprocess = False
    cfg.test_case_output.format_with_black = False
    for sec, fields in sections.items():
        target = cfg if sec == "top" else getattr(cfg, sec)
        for k, v in fields.items():
            if not hasattr(target, k):
                raise AttributeError(f"{sec}.{k}")
            setattr(target, k, v)
    return cfg


def setup_sut(cfg):
    """Instrument + import the SUT and build executor and cluster (real code)."""
    import pynguin.generator as gen

    gen.set_configuration(cfg)
    for m in [cfg.module_name]:
        sys.modules.pop(m, None)
    res = gen._setup_and_check()  # noqa: SLF001
    if res is None:
        raise RuntimeError(f"pynguin setup failed for {cfg.module_name}")
    return res  # executor, cluster, constant_provider


def stmt(code: str, bound: str | None = None, bound_type: type | None = None):
    import libcst as cst

    import pynguin.testcase.testcase as tc

    return tc.Statement(node=cst.parse_statement(code), bound_variable=bound, bound_type=bound_type)


def testcase(lines: list[tuple]):
    """lines: (code, bound_variable|None, bound_type|None)."""
    import pynguin.testcase.testcase as tc

    t = tc.TestCase()
    for ln in lines:
        code, bound, btype = (tuple(ln) + (None, None))[:3]
        t.add_statement(stmt(code, bound, btype))
    return t


def alias(module_name: str) -> str:
    from pynguin.utils.naming import get_module_alias

    return get_module_alias(module_name)


def reload_module(name: str):
    return importlib.import_module(name)
