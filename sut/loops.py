"""Counting-loop corpus module (deterministic, stateless).

Mutants of the step / bound expressions loop forever for some arguments and terminate for others,
so that one mutant can be killed by one test and time out in a later one.
"""


def count_up(n: int) -> int:
    i = 0
    steps = 0
    while i < n:
        i += 1
        steps += 1
    if steps > 5:
        return 5
    return steps


def countdown(n: int) -> str:
    if n > 40:
        n = 40
    while n > 0:
        n = n - 1
    if n == 0:
        return "done"
    return "negative"


def stride(n: int, step: int) -> int:
    if step <= 0:
        step = 1
    if n > 60:
        n = 60
    total = 0
    i = 0
    while i < n:
        total += i
        i += step
    return total


def halvings(n: int) -> int:
    if n > 1000:
        n = 1000
    steps = 0
    while n > 1:
        n = n // 2
        steps += 1
    return steps


def first_index(xs: list[int], x: int) -> int:
    i = 0
    while i < len(xs):
        if xs[i] == x:
            return i
        i += 1
    return -1
