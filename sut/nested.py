"""Control-dependence corpus module (deterministic, stateless): goals that are control dependent on more than one
branch (short-circuit conditions, nested ifs under `or`/`and`, early returns, loops with breaks)."""


def either(a: int, b: int) -> str:
    if a > 10 or b > 10:
        if a + b > 30:
            return "both big"
        return "one big"
    if a < 0 and b < 0:
        if a == b:
            return "equal negatives"
        return "negatives"
    return "small"


def ladder(x: int, y: int) -> int:
    if x > 0:
        if y > 0:
            if x > y:
                return 1
            return 2
        if y == 0 or x == 7:
            if x % 2 == 0:
                return 3
            return 4
        return 5
    return 6


def scan(xs: list[int], stop: int) -> int:
    total = 0
    for x in xs[:20]:
        if x == stop:
            break
        if x < 0 or x > 100:
            continue
        if x % 2 == 0 and x % 3 == 0:
            total += 6
        elif x % 2 == 0 or x % 5 == 0:
            total += 2
        else:
            total += 1
    else:
        if total > 10:
            return -total
    return total


def classify(s: str) -> str:
    if not s or s.isspace():
        return "blank"
    if s[0].isdigit() or s[0] == "-":
        if s.lstrip("-").isdigit():
            return "int"
        return "numeric-ish"
    if s.isupper() or s.istitle():
        if len(s) > 3:
            return "NAME"
        return "Abbr"
    return "word"
