"""String / enum corpus module (deterministic, stateless)."""
import enum


class Color(enum.Enum):
    RED = 1
    GREEN = 2
    BLUE = 3


def color_name(c: Color) -> str:
    if c is Color.RED:
        return "warm"
    if c == Color.GREEN:
        return "natural"
    return "cold"


def parse_color(s: str) -> Color:
    s = s.strip().lower()
    if s == "red":
        return Color.RED
    if s.startswith("gr"):
        return Color.GREEN
    if s.endswith("ue"):
        return Color.BLUE
    raise ValueError("unknown colour: " + s)


def shorten(s: str, n: int) -> str:
    if n < 0:
        raise ValueError("negative width")
    if len(s) <= n:
        return s
    if n < 3:
        return s[:n]
    return s[: n - 3] + "..."


def count_vowels(s: str) -> int:
    total = 0
    for ch in s:
        if ch in "aeiouAEIOU":
            total += 1
    return total


def is_palindrome(s: str) -> bool:
    t = [c for c in s.lower() if c.isalnum()]
    return t == t[::-1]
