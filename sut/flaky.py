"""Corpus module whose observable behaviour depends on the history of the process (C21 only).

Everything that differs does so between ANY two executions: `serial` is a process-wide counter (never the same
twice), and every ticket carries an attribute whose NAME contains that counter, so it exists on exactly one object
ever created.  Pynguin's filtering re-execution therefore sees both failing assertions (serial) and erroring ones
(the vanished attribute) on the same statement; everything else is deterministic.
"""

_made = 0


class Ticket:
    def __init__(self, owner: str):
        global _made
        _made += 1
        self.owner = owner
        self.serial = _made
        self.size = len(owner)
        setattr(self, "slot_%d" % _made, True)

    def upper(self) -> str:
        return self.owner.upper()

    def longer_than(self, n: int) -> bool:
        if self.size > n:
            return True
        return False


def issue(owner: str) -> Ticket:
    if not owner:
        return Ticket("nobody")
    return Ticket(owner)


def stable(x: int) -> int:
    if x > 3:
        return x - 3
    return x
