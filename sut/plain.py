"""Corpus module without any predicate: only branch-less code objects (deterministic, stateless)."""


def double(x: int) -> int:
    return x * 2


def greet(name: str) -> str:
    return "hello " + name


def pair(a: int, b: int) -> tuple[int, int]:
    return (b, a)


class Box:
    def __init__(self, value: int):
        self.value = value

    def get(self) -> int:
        return self.value

    def put(self, value: int) -> None:
        self.value = value
