"""Corpus module for C30: code that misbehaves towards process-global state.

Everything except the functions tagged STATEFUL below is a pure function of its
arguments (given Pynguin's per-execution reseeding of `random`).
"""
import io
import logging
import os
import random
import sys

STATEFUL = ("bump", "read_counter")
_counter = 0
_DICE = random.Random(1234)  # module-level generator with an explicit seed
_LOOSE = random.Random()  # module-level generator without a seed


def shout(n, where):
    for i in range(n):
        if where == "err":
            print("chaos", i, file=sys.stderr)
        else:
            print("chaos", i)
    if n > 2:
        return "loud"
    return "quiet"


def boom(kind):
    if kind == 0:
        raise ValueError("boom")
    if kind == 1:
        raise KeyError("boom")
    if kind == 2:
        sys.exit(3)
    if kind == 3:
        raise KeyboardInterrupt
    if kind == 4:
        raise AssertionError("boom")
    return "no boom"


def close_stream(which):
    if which == "out":
        sys.stdout.close()
    elif which == "err":
        sys.stderr.close()
    else:
        sys.stdout.close()
        sys.stderr.close()
    return which


def close_fd(fd):
    if fd in (1, 2):
        os.close(fd)
        return "closed"
    return "ignored"


def open_fd_as_file(fd):
    if fd not in (1, 2):
        return 0
    with open(fd, "w") as f:
        f.flush()
    return 1


def replace_stream(which):
    buf = io.StringIO()
    if which == "out":
        sys.stdout = buf
    else:
        sys.stderr = buf
    print("captured", file=buf)
    return len(buf.getvalue())


def print_after_close(n):
    sys.stdout.close()
    for i in range(n):
        print(i)
    return n


def mute_logging(level):
    logging.disable(level)
    logging.getLogger("chaos").warning("muted?")
    if level >= logging.ERROR:
        return "strict"
    return "lenient"


def set_root_level(level):
    logging.getLogger().setLevel(level)
    return logging.getLogger().level


def add_root_handler(n):
    for _ in range(n):
        logging.getLogger().addHandler(logging.NullHandler())
    return n


def log_noise(n):
    log = logging.getLogger("chaos.noise")
    for i in range(n):
        if i % 2:
            log.error("noise %d", i)
        else:
            log.warning("noise %d", i)
    return n


def reseed(x):
    random.seed(x)
    v = random.random()
    if v < 0.5:
        return "low"
    return "high"


def roll(n):
    total = 0
    for _ in range(n):
        total += random.randint(1, 6)
    if total % 2 == 0:
        return "even"
    return "odd"


def new_rng(x, n):
    r = random.Random(x)
    vals = [r.random() for _ in range(n)]
    if vals and max(vals) > 0.9:
        return "hot"
    return "cold"


def unseeded_rng(n):
    r = random.Random()
    v = [r.randint(0, 9) for _ in range(n)]
    if sum(v) > 4 * n:
        return "high"
    return "low"


def dice(n):
    total = 0
    for _ in range(n):
        total += _DICE.randint(1, 6)
    if total % 3 == 0:
        return "fizz"
    if total > 3 * n:
        return "high"
    return "low"


def loose_dice(n):
    vals = [_LOOSE.random() for _ in range(n)]
    if vals and vals[-1] < 0.5:
        return "lo"
    return "hi"


def shuffle_and_pick(items):
    items = list(items)
    random.shuffle(items)
    if items and items[0] == min(items):
        return "min-first"
    return "other"


def bump():
    global _counter
    _counter += 1
    if _counter > 2:
        return "many"
    return "few"


def read_counter():
    if _counter == 0:
        return "fresh"
    return "used"


def spin(n):
    i = 0
    while n < 0 or i < n:
        i += 1
    return i


def plain(a, b):
    if a < b:
        return "lt"
    if a == b:
        return "eq"
    return "gt"
