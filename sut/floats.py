"""Float-returning corpus module (deterministic, stateless)."""
import math


def mean(xs: list[float]) -> float:
    if not xs:
        raise ValueError("empty")
    return sum(xs) / len(xs)


def hypot(a: float, b: float) -> float:
    return math.sqrt(a * a + b * b)


def clamp(x: float, lo: float, hi: float) -> float:
    if lo > hi:
        raise ValueError("empty interval")
    if x < lo:
        return lo
    if x > hi:
        return hi
    return x


def ratio(a: int, b: int) -> float:
    if b == 0:
        return float("inf") if a > 0 else float("nan") if a == 0 else float("-inf")
    return a / b


def third(x: int) -> float:
    return x / 3


def tolerance(x: float) -> str:
    """Float arithmetic that misses equality by a few ulps for most inputs (e.g. x = 1.0)."""
    total = x * 0.1 + x * 0.2
    if total == x * 0.3:
        return "exact"
    if total <= x * 0.3:
        return "below"
    return "rounded up"


def scaled(x: int) -> float:
    y = x / 10
    if y * 10 == x:
        return y
    return float(x)
