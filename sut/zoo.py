"""Class hierarchy / generics / unions corpus module (deterministic)."""
from __future__ import annotations


class Animal:
    def __init__(self, name: str, legs: int = 4):
        self.name = name
        self.legs = legs

    def sound(self) -> str:
        return "..."

    def describe(self) -> str:
        if self.legs == 0:
            return self.name + " slithers"
        if self.legs == 2:
            return self.name + " walks upright"
        return self.name + " runs"


class Dog(Animal):
    def sound(self) -> str:
        return "woof"


class Bird(Animal):
    def __init__(self, name: str):
        super().__init__(name, 2)

    def sound(self) -> str:
        return "tweet"


class Cage:
    def __init__(self, capacity: int):
        self.capacity = capacity
        self.animals: list[Animal] = []

    def add(self, a: Animal) -> bool:
        if len(self.animals) >= self.capacity:
            return False
        self.animals.append(a)
        return True

    def loudest(self) -> Animal | None:
        best = None
        for a in self.animals:
            if best is None or len(a.sound()) > len(best.sound()):
                best = a
        return best


def chorus(animals: list[Animal]) -> str:
    return " ".join(a.sound() for a in animals)


def legs_total(pets: dict[str, Animal]) -> int:
    total = 0
    for name in pets:
        total += pets[name].legs
    return total


def pick(x: int | str | None) -> str:
    if x is None:
        return "none"
    if isinstance(x, int):
        if x > 10:
            return "big int"
        return "int"
    return "str:" + x


def make(kind: str, name: str) -> Animal:
    if kind == "dog":
        return Dog(name)
    if kind == "bird":
        return Bird(name)
    return Animal(name)
