"""Corpus module for timeout behaviour (C32): deterministic, no hidden state."""
import time

import loopy_helper


def spin(n):
    """Instrumented loop; n < 0 never terminates."""
    i = 0
    while n < 0 or i < n:
        i += 1
    return i


def helper_spin(flag):
    """Loop in uninstrumented code reached through a SUT call."""
    r = loopy_helper.spin_forever(flag)
    if r > 3:
        return "many"
    return "few"


def nap(d):
    time.sleep(d)
    if d > 2:
        return "long"
    return "short"


def nap_then_work(d, x):
    time.sleep(d)
    total = 0
    for k in range(x):
        if k % 2 == 0:
            total += k
        else:
            total -= 1
    if total > 10:
        return "big"
    return "small"


def helper_nap_then_branch(d, x):
    loopy_helper.nap(d)
    if x == 7:
        raise ValueError("seven")
    if x > 100:
        return 1
    return 0


def branchy(a, b):
    if a < b:
        if a + 1 == b:
            return "adjacent"
        return "less"
    if a == b:
        return "equal"
    if a > b * 2:
        return "much greater"
    return "greater"


def classify(s):
    if not s:
        return "empty"
    if s.startswith("a"):
        return "a-word"
    if len(s) > 5:
        return "long"
    return "other"


def raiser(x):
    if x < 0:
        raise ValueError("negative")
    if x == 0:
        raise KeyError("zero")
    return 100 // x


def long_finite(n):
    return loopy_helper.spin_n(n) + spin(n)


def stubborn_nap(d, x):
    """Blocks, and swallows whatever is raised when it wakes up (a bare-except wrapper as found in retry loops):
    a thread abandoned in here still completes its statement later."""
    try:
        time.sleep(d)
        r = 1 if x > 2 else 0
    except BaseException:  # noqa: BLE001
        r = -1
    return r


def use_twice(x):
    if x > 2:
        y = x * 2
    else:
        y = x
    if y % 2 == 0:
        return "even"
    return "odd"


def big(n):
    """A result that does not fit into a pipe buffer."""
    if n > 1:
        return "x" * (n * 40000)
    return "small"
