"""Wide-object corpus module (deterministic): one statement carries many assertions."""

LIMIT = 12
FACTOR = 3
OFFSET = -4
NAME = "wide"
RATIO = 0.5
ENABLED = True
DEPTH = 7
WIDTH = 9
HEIGHT = 11
LABEL = "w"
SCALE = 2
BASE = 10
STEP = 5
CAP = 99
FLOOR = -99
MARK = "m"
TAG = "t"
EPS = 0.25
# evaluated at import time: some arithmetic mutants of this line make the module fail to import
_TABLE = (3, 5, 7)
PICK = _TABLE[LIMIT - 10]


class Record:
    def __init__(self, seed: int):
        self.a = seed
        self.b = seed + 1
        self.c = seed * 2
        self.d = seed - 3
        self.e = seed % 7
        self.f = seed // 2
        self.g = -seed
        self.h = seed + 10
        self.i = seed * seed
        self.j = seed > 0
        self.k = seed == 0
        self.m = str(seed)
        self.n = seed + 100
        self.o = seed * 3
        self.p = seed - 100
        self.q = seed % 3
        self.r = abs(seed)
        self.s = seed + 0.5
        self.t = seed * 5
        self.u = seed ^ 1
        self.v = seed & 6
        self.w = seed | 8

    def bump(self, by: int) -> int:
        self.a += by
        self.h += by * 2
        self.w = self.w - by
        return self.a

    def total(self) -> int:
        return self.a + self.b + self.c + self.n + self.t


def make(seed: int) -> Record:
    if seed < 0:
        return Record(-seed)
    return Record(seed)


def spread(seed: int) -> int:
    r = Record(seed)
    if r.v > 2:
        return r.w + LIMIT
    return r.u * FACTOR + OFFSET


def picked(x: int) -> int:
    if x > PICK:
        return x - PICK
    return PICK
