"""Type-shape corpus module for generator selection (deterministic): hierarchy, unions, tuples, containers."""
from __future__ import annotations


class Shape:
    def __init__(self, name: str = "shape"):
        self.name = name

    def sides(self) -> int:
        return 0


class Circle(Shape):
    def __init__(self, r: int = 1):
        super().__init__("circle")
        self.r = r


class Square(Shape):
    def __init__(self, side: int = 1):
        super().__init__("square")
        self.side = side

    def sides(self) -> int:
        return 4


class Canvas:
    def __init__(self, w: int = 1):
        self.w = w
        self.shapes: list[Shape] = []

    def add(self, s: Shape) -> int:
        self.shapes.append(s)
        return len(self.shapes)


class Palette:
    def __init__(self, n: int = 2):
        self.n = n


def circle_or_palette(flag: bool) -> Circle | Palette:
    if flag:
        return Circle(2)
    return Palette(3)


def shape_or_canvas_name(x: Shape | Canvas) -> str:
    if isinstance(x, Shape):
        return x.name
    return "canvas"


def maybe_square(n: int) -> Square | None:
    if n > 0:
        return Square(n)
    return None


def describe(x: Square | None) -> str:
    if x is None:
        return "none"
    return "square"


def one(t: tuple[Shape]) -> int:
    return t[0].sides()


def two(t: tuple[Shape, Canvas]) -> int:
    return t[0].sides() + t[1].w


def pair_cc(r: int) -> tuple[Circle, Canvas]:
    return (Circle(r), Canvas(r))


def single(r: int) -> tuple[Circle]:
    return (Circle(r),)


def triple(r: int) -> tuple[Circle, Canvas, Palette]:
    return (Circle(r), Canvas(r), Palette(r))


def all_sides(xs: list[Shape]) -> int:
    total = 0
    for s in xs:
        total += s.sides()
    return total


def squares(n: int) -> list[Square]:
    return [Square(i) for i in range(n if n < 5 else 5)]


def by_name(d: dict[str, Shape]) -> int:
    return len(d)


def untyped(n):
    if n > 2:
        return Circle(n)
    return Square(n)


def local_thing(n: int):
    """Returns an instance of a class that no static analysis of this module can see."""

    class Local(Shape):
        def sides(self) -> int:
            return n

    return Local("local")


def tags(n: int) -> set[str]:
    return {"t%d" % i for i in range(n if n < 4 else 4)}


def join_names(xs: list[str]) -> str:
    return ",".join(xs)


def count_tags(ts: set[str]) -> int:
    return len(ts)
