"""Container / class-state corpus module (deterministic; state only inside instances)."""


class Stack:
    def __init__(self, limit: int = 4):
        self._items: list[int] = []
        self._limit = limit

    def push(self, x: int) -> int:
        if len(self._items) >= self._limit:
            raise OverflowError("full")
        self._items.append(x)
        return len(self._items)

    def pop(self) -> int:
        if not self._items:
            raise IndexError("empty")
        return self._items.pop()

    def peek(self) -> int | None:
        if self._items:
            return self._items[-1]
        return None

    def size(self) -> int:
        return len(self._items)


class Rect:
    def __init__(self, w: int, h: int):
        if w < 0 or h < 0:
            raise ValueError("negative side")
        self.w = w
        self.h = h

    def area(self) -> int:
        return self.w * self.h

    def is_square(self) -> bool:
        return self.w == self.h

    def scale(self, k: int) -> "Rect":
        return Rect(self.w * k, self.h * k)


def total_area(rects: list[Rect]) -> int:
    total = 0
    for r in rects:
        total += r.area()
    return total


def bucket(xs: list[int]) -> dict[str, int]:
    out = {"neg": 0, "zero": 0, "pos": 0}
    for x in xs:
        if x < 0:
            out["neg"] += 1
        elif x == 0:
            out["zero"] += 1
        else:
            out["pos"] += 1
    return out


def drain(stack: Stack) -> list[int]:
    out = []
    while stack.size() > 0:
        out.append(stack.pop())
    return out
