"""Module under test inside a package (deterministic, stateless)."""


def price_band(cents: int) -> str:
    if cents < 0:
        return "refund"
    if cents == 1999:
        return "promo"
    if cents > 50000:
        return "premium"
    return "regular"


def label(code: str) -> str:
    if code == "GIFT-CARD":
        return "gift"
    if code.startswith("zz-"):
        return "clearance"
    if code in ("apple", "apricot"):
        return "fruit"
    return "misc"


def shipping(weight: float, express: bool) -> float:
    if weight > 31.5:
        return 99.0
    if express:
        return 12.5 + weight
    return 4.25
