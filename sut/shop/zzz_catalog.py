"""Sibling module: other literals."""
NAMES = ["omega", "zz-top", "yak", "xylophone"]
LIMITS = [-1, 0, 65535, 1024]
RATES = [2.5, 12.5, 99.0]
