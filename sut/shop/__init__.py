"""Corpus package: the module under test (shop.core) has sibling modules whose literals feed constant seeding."""
