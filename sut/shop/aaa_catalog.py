"""Sibling module: literals only."""
CODES = ["GIFT-CARD", "apple", "apricot", "zz-lamp", "zz-sofa"]
PRICES = [1999, 50001, 7, 42, 31415]
WEIGHTS = [31.5, 31.6, 0.25]
