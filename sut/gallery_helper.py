"""Helper module of the export-shape corpus module: names that gallery imports and hands on."""
import enum


class Color(enum.Enum):
    RED = "r"
    GREEN = "g"


class Helper:
    def __init__(self, tag: str = "h"):
        self.tag = tag
