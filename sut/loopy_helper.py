"""Uninstrumented helper (pynguin only instruments the module under test)."""
import time


def spin_forever(flag):
    n = 0
    while flag:
        n += 1
    return n


def spin_n(n):
    i = 0
    while i < n:
        i += 1
    return i


def nap(d):
    time.sleep(d)
    return d
