"""Tiny deterministic module for whole-pipeline runs in worker processes."""


def classify(x: int) -> str:
    if x < 0:
        return "negative"
    if x == 0:
        return "zero"
    if x > 100:
        return "large"
    return "small"


def safe_div(a: int, b: int) -> float:
    if b == 0:
        raise ZeroDivisionError("b is zero")
    return a / b
