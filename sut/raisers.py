"""Corpus module for C05: traced operators that raise, caught by the SUT, followed by more traced code.

Stateless: an operator raises iff the operand value says so, so the uninstrumented
module raises at exactly the same operator.
"""

import time

_EXC = (TypeError, ValueError, KeyError, RuntimeError, ZeroDivisionError)


class Boom(Exception):
    pass


class Teardown(BaseException):
    """Not an Exception subclass (like SystemExit / KeyboardInterrupt / GeneratorExit)."""


_BASE_EXC = (SystemExit, KeyboardInterrupt, GeneratorExit, Teardown)


def _raise(mode):
    if mode == 20:
        # does not raise: the operator blocks (inside the tracer callback that evaluates it) and then answers
        time.sleep(30)
        return
    if mode >= 10:
        raise _BASE_EXC[(mode - 10) % len(_BASE_EXC)]("boom")
    if mode >= len(_EXC):
        raise Boom("boom")
    raise _EXC[mode]("boom")


class Touchy:
    """Operators raise when v is negative (which one: see each method)."""

    def __init__(self, v, mode=1):
        self.v = v
        self.mode = mode

    def _val(self, o):
        return o.v if isinstance(o, Touchy) else o

    def __lt__(self, o):
        if self.v == -1:
            _raise(self.mode)
        return self.v < self._val(o)

    def __le__(self, o):
        if self.v == -1:
            _raise(self.mode)
        return self.v <= self._val(o)

    def __gt__(self, o):
        if self.v == -1:
            _raise(self.mode)
        return self.v > self._val(o)

    def __ge__(self, o):
        if self.v == -1:
            _raise(self.mode)
        return self.v >= self._val(o)

    def __eq__(self, o):
        if self.v == -2:
            _raise(self.mode)
        return self.v == self._val(o)

    def __ne__(self, o):
        if self.v == -2:
            _raise(self.mode)
        return self.v != self._val(o)

    def __hash__(self):
        return hash(self.v)

    def __bool__(self):
        if self.v == -3:
            _raise(self.mode)
        return self.v != 0

    def __contains__(self, item):
        if self.v == -4:
            _raise(self.mode)
        return item == self.v

    def __len__(self):
        if self.v in (-5, 55):
            _raise(self.mode)
        return abs(self.v)

    def __abs__(self):
        if self.v == 66:
            _raise(self.mode)
        return abs(self.v)


def _after(tag, n):
    """Further traced branching code executed after the guarded operator."""
    out = tag
    for i in range(3):
        if i == n % 3:
            out += "="
        elif i > n % 3:
            out += "+"
        else:
            out += "-"
    if len(out) > 6:
        return out.upper()
    return out


def guarded_lt(a, b):
    try:
        if a < b:
            r = "lt"
        else:
            r = "ge"
    except Exception:
        r = "err"
    return _after(r, 1)


def guarded_le(a, b):
    try:
        r = "le" if a <= b else "gt"
    except Exception:
        r = "err"
    return _after(r, 2)


def guarded_gt(a, b):
    try:
        if a > b:
            r = "gt"
        else:
            r = "le"
    except Exception:
        r = "err"
    return _after(r, 0)


def guarded_ge(a, b):
    try:
        if a >= b:
            r = "ge"
        else:
            r = "lt"
    except Exception:
        r = "err"
    return _after(r, 4)


def guarded_eq(a, b):
    try:
        if a == b:
            r = "eq"
        else:
            r = "ne"
    except Exception:
        r = "err"
    return _after(r, 5)


def guarded_ne(a, b):
    try:
        if a != b:
            r = "ne"
        else:
            r = "eq"
    except Exception:
        r = "err"
    return _after(r, 3)


def guarded_in(a, b):
    try:
        if a in b:
            r = "in"
        else:
            r = "out"
    except Exception:
        r = "err"
    return _after(r, 7)


def guarded_not_in(a, b):
    try:
        if a not in b:
            r = "out"
        else:
            r = "in"
    except Exception:
        r = "err"
    return _after(r, 8)


def guarded_bool(a):
    try:
        if a:
            r = "truthy"
        else:
            r = "falsy"
    except Exception:
        r = "err"
    return _after(r, 6)


def guarded_not(a):
    try:
        if not a:
            r = "falsy"
        else:
            r = "truthy"
    except Exception:
        r = "err"
    return _after(r, 9)


def guarded_any_lt(a, b):
    """Catches everything, including SystemExit-like signals raised by an operator."""
    try:
        if a < b:
            r = "lt"
        else:
            r = "ge"
    except BaseException:
        r = "ERR"
    return _after(r, 11)


def guarded_any_bool(a):
    try:
        if a:
            r = "truthy"
        else:
            r = "falsy"
    except BaseException:
        r = "ERR"
    return _after(r, 12)


def guarded_any_eq(a, b):
    try:
        r = "eq" if a == b else "ne"
    except BaseException:
        r = "ERR"
    return _after(r, 13)


def guarded_any_in(a, b):
    try:
        r = "in" if a in b else "out"
    except BaseException:
        r = "ERR"
    return _after(r, 14)


def guarded_chain(a, b, c):
    """Several guarded operators in one function, each followed by branches."""
    res = []
    for x, y in ((a, b), (b, c), (a, c)):
        try:
            if x < y:
                res.append("lt")
            elif x == y:
                res.append("eq")
            else:
                res.append("gt")
        except Exception:
            res.append("err")
        if len(res) == 2:
            res.append("two")
    return _after("".join(res), len(res))


def nested(a, b, depth):
    if depth <= 0:
        return guarded_lt(a, b)
    try:
        inner = nested(a, b, depth - 1)
    except Exception:
        inner = "x"
    if inner.startswith("ERR") or inner.startswith("err"):
        return "n" + inner
    return inner


def unguarded_lt(a, b):
    """The exception escapes to the test case."""
    if a < b:
        return "lt"
    return "ge"


def tail_num(x):
    if x < 0:
        return "neg"
    if x == 0:
        return "zero"
    if x > 10:
        if x % 2 == 0:
            return "big-even"
        return "big-odd"
    return "small"


def tail_str(s):
    if not s:
        return 0
    n = 0
    for ch in s:
        if ch in "aeiou":
            n += 1
        elif ch == "z":
            n += 10
    if n >= 10:
        return -n
    return n


def tail_pair(a, b):
    if a is None or b is None:
        return "none"
    if a != b and a <= b:
        return "asc"
    if a in (b, b + 1):
        return "near"
    return "desc"


class Moody:
    """Attribute access that raises (property getter / __getattr__), decided by the value only."""

    def __init__(self, v, mode=1):
        self.v = v
        self.mode = mode

    @property
    def mood(self):
        if self.v == -6:
            _raise(self.mode)
        return self.v * 2

    def __getattr__(self, name):
        # only reached for attributes that do not exist
        if name == "ghost" and self.v == -7:
            _raise(self.mode)
        raise AttributeError(name)


def guarded_attr(v, mode):
    m = Moody(v, mode)
    try:
        x = m.mood
        r = "mood" if x > 4 else "calm"
    except _EXC + (Boom,):
        r = "x"
    return _after(r, v)


def guarded_ghost(v, mode):
    m = Moody(v, mode)
    try:
        x = m.ghost
        r = "seen"
    except AttributeError:
        r = "none"
    except _EXC + (Boom,):
        r = "x"
    return _after(r, v)
