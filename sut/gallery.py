"""Export-shape corpus module (deterministic, state only inside instances).

Collects the value and control-flow shapes the exporter and the post-processing have special paths for:
`__all__` that does not list everything, enums (public, omitted from `__all__`), several custom exception
classes with documented raises, SystemExit, results of classes defined in other modules (Fraction, Decimal,
date), floats, bytes, nested containers, values that return to an earlier value, and dependency chains.
"""
import datetime
import enum
import sys
from decimal import Decimal
from fractions import Fraction

from gallery_helper import Color, Helper

__all__ = [
    "Switch", "Node", "TooSmall", "TooBig", "NotEven", "level_of", "checked", "half", "price", "day_after",
    "leave", "leave_quietly", "ratio", "blob", "nest", "chain_value", "wrap", "uniq", "Denied", "Refused", "Rejected",
    "deny", "refuse", "reject", "favourite", "helper_for",
]


class Level(enum.Enum):
    LOW = 1
    MID = 2
    HIGH = 3


class TooSmall(Exception):
    pass


class TooBig(Exception):
    pass


class NotEven(ValueError):
    pass


class Denied(Exception):
    pass


class Refused(Exception):
    pass


class Rejected(KeyError):
    pass


def deny() -> int:
    """Always fails.

    :raises Denied: always
    """
    raise Denied("no")


def refuse(flag: bool) -> int:
    """Fails for every flag.

    :raises Refused: for true flags
    :raises Rejected: otherwise
    """
    if flag:
        raise Refused("never")
    raise Rejected("nope")


def reject(x: int) -> int:
    if x > -10**9:
        raise Rejected("almost always")
    return x


class Switch:
    def __init__(self):
        self.on = False
        self.flips = 0

    def flip(self) -> bool:
        self.on = not self.on
        self.flips += 1
        return self.on


class Node:
    def __init__(self, value: int, parent: "Node | None" = None):
        self.value = value
        self.parent = parent

    def depth(self) -> int:
        d = 0
        p = self.parent
        while p is not None:
            d += 1
            p = p.parent
        return d

    def root_value(self) -> int:
        n = self
        while n.parent is not None:
            n = n.parent
        return n.value


def wrap(node: Node) -> Node:
    return Node(node.value + 1, node)


def chain_value(node: Node) -> int:
    if node.depth() >= 3:
        return node.root_value() * 10
    return node.value


def level_of(x: int) -> Level:
    if x < 10:
        return Level.LOW
    if x < 100:
        return Level.MID
    return Level.HIGH


def checked(x: int) -> int:
    """Validate a number.

    :raises TooSmall: below zero
    :raises TooBig: above 1000
    :raises NotEven: odd numbers
    """
    if x < 0:
        raise TooSmall("negative")
    if x > 1000:
        raise TooBig("huge")
    if x % 2:
        raise NotEven("odd")
    return x // 2


def half(x: int) -> Fraction:
    if x == 0:
        return Fraction(0)
    return Fraction(x, 2)


def price(cents: int) -> Decimal:
    if cents < 0:
        return Decimal("0.00")
    return Decimal(cents) / Decimal(100)


def day_after(day: int) -> datetime.date:
    if day < 1 or day > 27:
        day = 1
    return datetime.date(2024, 2, day) + datetime.timedelta(days=1)


def leave(code: int) -> int:
    """Exit for big codes.

    :raises SystemExit: for codes above 5
    """
    if code > 5:
        raise SystemExit(code)
    return code


def leave_quietly(code: int) -> int:
    if code < 0:
        sys.exit(2)
    return -code


def ratio(a: int, b: int) -> float:
    if b == 0:
        return 0.0
    return a / b / 3


def blob(n: int) -> bytes:
    if n < 0:
        return b""
    return bytes([n % 256, (n * 7) % 256])


def nest(n: int) -> dict:
    if n > 3:
        return {"big": [n, (n, n + 1)], "flags": {True, False}}
    return {"small": [n], "none": None}


def uniq(xs: list) -> set:
    out = set()
    for x in xs:
        if isinstance(x, (int, str)):
            out.add(x)
    return out


def favourite(n: int) -> Color:
    if n % 2:
        return Color.RED
    return Color.GREEN


def helper_for(n: int) -> Helper:
    if n > 3:
        return Helper("big")
    return Helper()
